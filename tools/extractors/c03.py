"""C03: loop bounds / thresholds / shift amounts / shuffle immediates / round constants of the CPU-accelerated
paths (alg/crc32c_sse42.c, alg/crc32c.c, crypto/crypto_aesctr.c, alg/sha256_sse2.c, alg/sha256_shani.c)."""
import re
from extract_core import extractor, read, strip_c_comments, c_array, c_ints, c_define, lean_list


def _one(msgs, what, pat, src, flags=re.S):
    m = re.search(pat, src, flags)
    if not m:
        msgs.append("%s: pattern not found" % what)
        return None
    return m


def _fn_body(src, name):
    """text of the function/macro-less block that starts at `name(` definition: from the name to the next
    line that starts with '}' """
    m = re.search(r"^" + re.escape(name) + r"\s*\([^)]*\)(?:\s*#endif)?\s*\{(.*?)^\}", src, re.S | re.M)
    if not m:
        raise KeyError("function %s not found" % name)
    return m.group(1)


def _macro(src, name):
    """full text of a (possibly multi-line) #define, whitespace-normalised"""
    m = re.search(r"^[ \t]*#[ \t]*define[ \t]+" + re.escape(name) + r"\b((?:[^\n\\]|\\\n|\\.)*)", src, re.M)
    if not m:
        raise KeyError("#define %s not found" % name)
    return re.sub(r"\s+", " ", m.group(1).replace("\\\n", " ")).strip()


def _nats(xs):
    return "[" + ", ".join(str(x) for x in xs) + "]"


def _shuf(text, msgs, what):
    m = re.search(r"_MM_SHUFFLE\(\s*(\d+)\s*,\s*(\d+)\s*,\s*(\d+)\s*,\s*(\d+)\s*\)", text)
    if not m:
        msgs.append(what + ": _MM_SHUFFLE not found")
        return [9, 9, 9, 9]
    return [int(g) for g in m.groups()]


@extractor(soft=True)
def cpu_paths(repo):
    msgs = []
    out = "-- GENERATED from /repo/alg/{crc32c,crc32c_sse42,sha256,sha256_sse2,sha256_shani}.c and\n"
    out += "-- /repo/crypto/crypto_aesctr.c by tools/extractors/c03.py; do not edit\n"
    out += "namespace Percival.Gen.CpuPaths\n\n"

    # ---------------------------------------------------------------- CRC32C_Update_SSE42
    s = strip_c_comments(read(repo, "alg/crc32c_sse42.c"))
    body = _fn_body(s, "CRC32C_Update_SSE42")
    m = _one(msgs, "sse42 assert(len >= N)", r"assert\(\s*len\s*>=\s*(\d+)\s*\)", body)
    minlen = int(m.group(1)) if m else 0
    m = _one(msgs, "sse42 i = 0", r"size_t\s+i\s*=\s*(\d+)\s*;", body)
    i0 = int(m.group(1)) if m else 99
    m = _one(msgs, "sse42 pre_block", r"pre_block\s*=\s*\(\s*(\d+)\s*-\s*\(uintptr_t\)\s*buf\s*\)\s*&\s*(\d+)\s*;", body)
    presub, premask = (int(m.group(1)), int(m.group(2))) if m else (0, 0)
    _one(msgs, "sse42 remaining_bytes", r"remaining_bytes\s*=\s*len\s*-\s*pre_block\s*;", body)
    m = _one(msgs, "sse42 in_block", r"in_block\s*=\s*remaining_bytes\s*-\s*\(\s*remaining_bytes\s*%\s*(\d+)\s*\)\s*;", body)
    blockmod = int(m.group(1)) if m else 0
    _one(msgs, "sse42 head loop", r"for\s*\(\s*;\s*i\s*<\s*pre_block\s*;\s*i\+\+\s*\)\s*state\s*=\s*_mm_crc32_u8\(\s*state\s*,\s*buf\[i\]\s*\)\s*;", body)
    m = _one(msgs, "sse42 body loop", r"for\s*\(\s*;\s*i\s*(<=|<|!=)\s*in_block\s*;\s*i\s*\+=\s*(\d+)\s*\)\s*\{(.*?)\}", body)
    bodycmp, stride, loop = (m.group(1), int(m.group(2)), m.group(3)) if m else ("?", 0, "")
    m = _one(msgs, "sse42 #ifdef SSE42_64 in body", r"#ifdef\s+CPUSUPPORT_X86_SSE42_64(.*?)#else(.*?)#endif", loop)
    part64, part32 = (m.group(1), m.group(2)) if m else ("", "")

    def loads(text, intr, ctype, width):
        res = []
        for mm in re.finditer(r"state\s*=\s*\(uint32_t\)\s*" + intr + r"\(\s*state\s*,\s*\*\(const\s+" + ctype +
                              r"\s*\*\)\s*&buf\[\s*i\s*(?:\+\s*(\d+)\s*)?\]\s*\)\s*;", text):
            res.append((int(mm.group(1) or 0), width))
        return res
    l64 = loads(part64, "_mm_crc32_u64", "uint64_t", 8)
    l32 = loads(part32, "_mm_crc32_u32", "uint32_t", 4)
    if part64.count("_mm_crc32") != len(l64) or part32.count("_mm_crc32") != len(l32) or not l64 or not l32:
        msgs.append("sse42 body: unrecognised load statements")
    m = _one(msgs, "sse42 assert((len - i) < N)", r"assert\(\s*\(\s*len\s*-\s*i\s*\)\s*<\s*(\d+)\s*\)", body)
    tailbound = int(m.group(1)) if m else 0
    _one(msgs, "sse42 tail loop", r"for\s*\(\s*;\s*i\s*<\s*len\s*;\s*i\+\+\s*\)\s*state\s*=\s*_mm_crc32_u8\(\s*state\s*,\s*buf\[i\]\s*\)\s*;", body)
    out += "/-! `CRC32C_Update_SSE42` -/\n"
    out += "def sse42MinLen : Nat := %d\n" % minlen
    out += "def sse42I0 : Nat := %d\n" % i0
    out += "def sse42PreSub : Nat := %d\ndef sse42PreMask : Nat := %d\n" % (presub, premask)
    out += "def sse42BlockMod : Nat := %d\n" % blockmod
    out += "def sse42BodyCmp : String := \"%s\"\n" % bodycmp
    out += "def sse42Stride : Nat := %d\n" % stride
    out += "/-- (offset from `i`, width in bytes) of the loads in one body iteration, in order -/\n"
    out += "def sse42Loads64 : List (Nat × Nat) := [%s]\n" % ", ".join("(%d, %d)" % p for p in l64)
    out += "def sse42Loads32 : List (Nat × Nat) := [%s]\n" % ", ".join("(%d, %d)" % p for p in l32)
    out += "def sse42TailBound : Nat := %d\n\n" % tailbound

    # ---------------------------------------------------------------- dispatch thresholds
    c = strip_c_comments(read(repo, "alg/crc32c.c"))
    m = _one(msgs, "crc32c.c dispatch", r"if\s*\(\s*\(\s*len\s*>=\s*(\d+)\s*\)\s*&&\s*\(\s*hwaccel\s*==\s*HW_X86_CRC32\s*\)\s*\)\s*\{\s*ctx->state\s*=\s*CRC32C_Update_SSE42\(\s*ctx->state\s*,\s*buf\s*,\s*len\s*\)\s*;\s*return\s*;", c)
    out += "/-! dispatch in `CRC32C_Update` / `crypto_aesctr_stream` -/\n"
    out += "def crcDispatchMinLen : Nat := %d\n" % (int(m.group(1)) if m else 0)
    try:
        t080 = int(c_define(read(repo, "alg/crc32c.c"), "T_0_0x80"), 0)
    except Exception as e:
        msgs.append("T_0_0x80: %r" % e)
        t080 = 0
    _one(msgs, "CRC32C_Init state", r"ctx->state\s*=\s*T_0_0x80\s*;", c)
    out += "def crcInitState : UInt32 := 0x%08x\n" % t080
    a = strip_c_comments(read(repo, "crypto/crypto_aesctr.c"))
    m = _one(msgs, "crypto_aesctr.c dispatch", r"if\s*\(\s*\(\s*buflen\s*>=\s*(\d+)\s*\)\s*&&\s*\(\s*hwaccel\s*==\s*HW_X86_AESNI\s*\)\s*\)", a)
    out += "def ctrDispatchMinLen : Nat := %d\n\n" % (int(m.group(1)) if m else 0)

    # ---------------------------------------------------------------- SHA256_Transform_sse2
    raw2 = read(repo, "alg/sha256_sse2.c")
    s2 = strip_c_comments(raw2)
    out += "/-! `sha256_sse2.c` -/\n"
    out += lean_list("sse2K", "UInt32", c_ints(c_array(raw2, "Krnd")))
    # s0_128: two rotations and a shift; ROTR32 must be the usual (x >> n) | (x << (32 - n))
    rot = _macro(s2, "ROTR32")
    if re.sub(r"\s", "", rot) != "(x,n)(_mm_or_si128(SHR32(x,n),_mm_slli_epi32(x,(32-n))))":
        msgs.append("ROTR32 macro changed: " + rot)
    if re.sub(r"\s", "", _macro(s2, "SHR32")) != "(x,n)(_mm_srli_epi32(x,n))":
        msgs.append("SHR32 macro changed")
    s0 = re.sub(r"\s", "", _macro(s2, "s0_128"))
    m = re.fullmatch(r"\(x\)_mm_xor_si128\(_mm_xor_si128\(ROTR32\(x,(\d+)\),ROTR32\(x,(\d+)\)\),SHR32\(x,(\d+)\)\)", s0)
    if not m:
        msgs.append("s0_128 macro changed: " + s0)
    out += "def sse2S0 : List Nat := %s\n" % _nats([int(g) for g in m.groups()] if m else [])

    def s1(name, byteshift):
        b = re.sub(r"\s+", " ", _fn_body(s2, name))
        pat = (r"b = _mm_shuffle_epi32\(a, (_MM_SHUFFLE\([^)]*\))\); "
               r"c = _mm_xor_si128\(_mm_srli_epi64\(b, (\d+)\), _mm_srli_epi64\(b, (\d+)\)\); "
               r"c = _mm_xor_si128\(c, _mm_srli_epi32\(b, (\d+)\)\); "
               r"c = _mm_shuffle_epi32\(c, (_MM_SHUFFLE\([^)]*\))\); "
               r"c = " + byteshift + r"\(c, (\d+)\); return \(c\);")
        mm = re.search(pat, b)
        if not mm:
            msgs.append(name + ": body changed")
            return [9, 9, 9, 9], [0, 0], 0, [9, 9, 9, 9], 0
        return (_shuf(mm.group(1), msgs, name), [int(mm.group(2)), int(mm.group(3))], int(mm.group(4)),
                _shuf(mm.group(5), msgs, name), int(mm.group(6)))
    hi = s1("s1_128_high", "_mm_slli_si128")
    lo = s1("s1_128_low", "_mm_srli_si128")
    out += "/-- `s1_128_high`: first shuffle, the two `srli_epi64` counts, the `srli_epi32` count, second shuffle, `slli_si128` bytes -/\n"
    out += "def sse2S1High : List Nat × List Nat × Nat × List Nat × Nat := (%s, %s, %d, %s, %d)\n" % (
        _nats(hi[0]), _nats(hi[1]), hi[2], _nats(hi[3]), hi[4])
    out += "/-- `s1_128_low`: the same with `srli_si128` -/\n"
    out += "def sse2S1Low : List Nat × List Nat × Nat × List Nat × Nat := (%s, %s, %d, %s, %d)\n" % (
        _nats(lo[0]), _nats(lo[1]), lo[2], _nats(lo[3]), lo[4])
    span = re.sub(r"\s", "", _macro(s2, "SPAN_ONE_THREE"))
    m = re.fullmatch(r"\(a,b\)\(_mm_shuffle_epi32\(_mm_castps_si128\(_mm_move_ss\(_mm_castsi128_ps\(a\),_mm_castsi128_ps\(b\)\)\),(_MM_SHUFFLE\([^)]*\))\)\)", span)
    if not m:
        msgs.append("SPAN_ONE_THREE macro changed: " + span)
    out += "def sse2SpanShuf : List Nat := %s\n" % _nats(_shuf(m.group(1) if m else "", msgs, "SPAN_ONE_THREE"))
    bs = re.sub(r"\s+", " ", _fn_body(s2, "mm_bswap_epi32"))
    m = re.search(r"a = _mm_or_si128\(_mm_slli_epi16\(a, (\d+)\), _mm_srli_epi16\(a, (\d+)\)\); "
                  r"a = _mm_shufflelo_epi16\(a, (_MM_SHUFFLE\([^)]*\))\); a = _mm_shufflehi_epi16\(a, (_MM_SHUFFLE\([^)]*\))\); return \(a\);", bs)
    if not m:
        msgs.append("mm_bswap_epi32: body changed")
    out += "/-- `mm_bswap_epi32`: `slli_epi16` count, `srli_epi16` count, `shufflelo_epi16`, `shufflehi_epi16` -/\n"
    out += "def sse2Bswap : Nat × Nat × List Nat × List Nat := (%d, %d, %s, %s)\n" % (
        int(m.group(1)) if m else 0, int(m.group(2)) if m else 0,
        _nats(_shuf(m.group(3) if m else "", msgs, "bswap lo")), _nats(_shuf(m.group(4) if m else "", msgs, "bswap hi")))
    mg = re.sub(r"\s+", " ", _fn_body(s2, "MSG4"))
    m = re.search(r"Xj_minus_seven = SPAN_ONE_THREE\(X(\d), X(\d)\); Xj_minus_fifteen = SPAN_ONE_THREE\(X(\d), X(\d)\); "
                  r"X4 = _mm_add_epi32\(X(\d), Xj_minus_seven\); X4 = _mm_add_epi32\(X4, s0_128\(Xj_minus_fifteen\)\); "
                  r"X4 = _mm_add_epi32\(X4, s1_128_low\(X(\d)\)\); X4 = _mm_add_epi32\(X4, s1_128_high\(X4\)\); return \(X4\);", mg)
    if not m:
        msgs.append("MSG4: body changed")
    out += "/-- `MSG4`: arguments of the two `SPAN_ONE_THREE`s (W[j-7..], W[j-15..]), the first addend, the argument of `s1_128_low` -/\n"
    out += "def sse2Msg4Args : List Nat := %s\n" % _nats([int(g) for g in m.groups()] if m else [])
    tb = re.sub(r"\s+", " ", _fn_body(s2, "SHA256_Transform_sse2"))
    ld = re.findall(r"Y\[(\d)\] = mm_bswap_epi32\(_mm_loadu_si128\(\(const __m128i \*\)&block\[(\d+)\]\)\); "
                    r"_mm_storeu_si128\(\(__m128i \*\)&W\[(\d+)\], Y\[(\d)\]\);", tb)
    if len(ld) != 4 or any(a != d for a, _, _, d in ld):
        msgs.append("SHA256_Transform_sse2: the four block loads changed")
    out += "/-- (Y index, byte offset in block, word offset in W) of the four loads -/\n"
    out += "def sse2Loads : List (Nat × Nat × Nat) := [%s]\n" % ", ".join("(%s, %s, %s)" % (a, b, c) for a, b, c, _ in ld)
    calls = re.findall(r"Y\[(\d)\] = MSG4\(Y\[(\d)\], Y\[(\d)\], Y\[(\d)\], Y\[(\d)\]\); "
                       r"_mm_storeu_si128\(\(__m128i \*\)&W\[(\d+) \+ i \+ (\d+)\], Y\[(\d)\]\);", tb)
    if len(calls) != 4 or any(c[0] != c[7] for c in calls) or tb.count("MSG4(") != 4:
        msgs.append("SHA256_Transform_sse2: the four MSG4 calls changed")
    out += "/-- (destination Y, the four argument Ys, word offset of the store relative to `i`) per `MSG4` call -/\n"
    out += "def sse2Msg4Calls : List (Nat × List Nat × Nat) := [%s]\n" % ", ".join(
        "(%s, [%s, %s, %s, %s], %d)" % (c[0], c[1], c[2], c[3], c[4], int(c[5]) + int(c[6])) for c in calls)
    m = _one(msgs, "sse2 loop header", r"for \(i = (\d+); i < (\d+); i \+= (\d+)\) \{", tb)
    m2 = _one(msgs, "sse2 loop break", r"if \(i == (\d+)\) break;", tb)
    out += "/-- outer loop `for (i = a; i < b; i += c)` and the `if (i == d) break;` before the schedule step -/\n"
    out += "def sse2Loop : List Nat := %s\n" % _nats(([int(g) for g in m.groups()] if m else []) + ([int(m2.group(1))] if m2 else []))
    rr = re.findall(r"RNDr\(S, W, (\d+), i\);", tb)
    out += "def sse2RoundsPerIter : List Nat := %s\n" % _nats([int(x) for x in rr])
    # the round macros must be textually those of the portable file
    p = strip_c_comments(read(repo, "alg/sha256.c"))
    same = True
    for name in ("Ch", "Maj", "ROTR", "S0", "S1", "RND", "RNDr"):
        try:
            if _macro(s2, name) != _macro(p, name):
                same = False
        except KeyError as e:
            msgs.append("round macro %s: %r" % (name, e))
            same = False
    ptb = re.sub(r"\s+", " ", _fn_body(p, "SHA256_Transform"))
    if re.findall(r"RNDr\(S, W, (\d+), i\);", ptb) != rr:
        same = False
    same = same and "memcpy(S, state, 32);" in tb and "memcpy(S, state, 32);" in ptb
    fin = r"for \(i = 0; i < 8; i\+\+\) state\[i\] \+= S\[i\];"
    same = same and bool(re.search(fin, tb)) and bool(re.search(fin, ptb))
    out += "/-- `Ch Maj ROTR S0 S1 RND RNDr`, the sixteen `RNDr` lines, `memcpy(S, state, 32)` and the final `state[i] += S[i]`\n"
    out += "    are textually identical in `sha256_sse2.c` and `sha256.c` -/\n"
    out += "def sse2RoundCodeSameAsPortable : Bool := %s\n\n" % ("true" if same else "false")

    # ---------------------------------------------------------------- SHA256_Transform_shani
    s3 = strip_c_comments(read(repo, "alg/sha256_shani.c"))
    ks = []
    idx = []
    for mm in re.finditer(r"RNDMSG\(S, W, (\d+), (0x[0-9a-fA-F]+), (0x[0-9a-fA-F]+), (0x[0-9a-fA-F]+), (0x[0-9a-fA-F]+)\);", s3):
        idx.append(int(mm.group(1)))
        ks += [int(mm.group(k), 16) for k in (2, 3, 4, 5)]
    if idx != list(range(16)):
        msgs.append("sha256_shani.c: RNDMSG sequence changed")
    out += "/-! `sha256_shani.c`: the constants of the sixteen `RNDMSG` lines, in order -/\n"
    out += lean_list("shaniK", "UInt32", ks)
    m = _one(msgs, "be32dec_128 SHUF", r"SHUF\s*=\s*_mm_set_epi8\(([^)]*)\)", s3)
    out += "/-- `_mm_set_epi8(...)` of `be32dec_128`, as written (byte 15 first) -/\n"
    out += "def shaniBswapSel : List Nat := %s\n" % _nats(c_ints(m.group(1)) if m else [])
    out += "/-- immediates of the four `_mm_shuffle_epi32` (state in / state out) -/\n"
    out += "def shaniStateShuf : List Nat := %s\n" % _nats([int(x, 0) for x in re.findall(r"_mm_shuffle_epi32\(\s*S\w+\s*,\s*(0x[0-9a-fA-F]+|\d+)\s*\)", s3)])
    rnd4 = re.sub(r"\s+", " ", _macro(s3, "RND4"))
    m = re.search(r"M = _mm_add_epi32\(W, IMM4\(K(\d), K(\d), K(\d), K(\d)\)\); "
                  r"S\[(\d)\] = _mm_sha256rnds2_epu32\(S\[(\d)\], S\[(\d)\], M\); "
                  r"M = _mm_srli_si128\(M, (\d+)\); "
                  r"S\[(\d)\] = _mm_sha256rnds2_epu32\(S\[(\d)\], S\[(\d)\], M\);", rnd4)
    if not m:
        msgs.append("RND4 macro changed: " + rnd4)
    out += "/-- `RND4`: order of `K` in `IMM4`, then (dst, src1, src2) of the first `rnds2`, the `srli_si128` bytes, (dst, src1, src2) of the second -/\n"
    out += "def shaniRnd4 : List Nat := %s\n" % _nats([int(g) for g in m.groups()] if m else [])
    imm4 = re.sub(r"\s+", "", _macro(s3, "IMM4"))
    if imm4 != "(a,b,c,d)_mm_set_epi32(I32(a),I32(b),I32(c),I32(d))":
        msgs.append("IMM4 macro changed: " + imm4)
    mg = re.sub(r"\s+", " ", _macro(s3, "MSG4"))
    m = re.search(r"W\[\(i \+ (\d)\) % 4\] = _mm_sha256msg1_epu32\(W\[\(i \+ (\d)\) % 4\], W\[\(i \+ (\d)\) % 4\]\); "
                  r"W\[\(i \+ (\d)\) % 4\] = _mm_add_epi32\(W\[\(i \+ (\d)\) % 4\], _mm_alignr_epi8\(W\[\(i \+ (\d)\) % 4\], W\[\(i \+ (\d)\) % 4\], (\d+)\)\); "
                  r"W\[\(i \+ (\d)\) % 4\] = _mm_sha256msg2_epu32\(W\[\(i \+ (\d)\) % 4\], W\[\(i \+ (\d)\) % 4\]\);", mg)
    if not m:
        msgs.append("shani MSG4 macro changed: " + mg)
    out += "/-- `MSG4(W, i)` of sha256_shani.c: the offsets `k` in `W[(i + k) % 4]` in textual order, with the `alignr` byte count -/\n"
    out += "def shaniMsg4 : List Nat := %s\n" % _nats([int(g) for g in m.groups()] if m else [])
    rm = re.sub(r"\s+", " ", _macro(s3, "RNDMSG"))
    m = re.search(r"RND4\(S, W\[i % 4\], K0, K1, K2, K3\); if \(i < (\d+)\) MSG4\(W, i \+ (\d+)\);", rm)
    if not m:
        msgs.append("RNDMSG macro changed: " + rm)
    out += "/-- `RNDMSG`: `if (i < a) MSG4(W, i + b)` -/\n"
    out += "def shaniRndMsg : List Nat := %s\n" % _nats([int(g) for g in m.groups()] if m else [])
    tb = re.sub(r"\s+", " ", _fn_body(s3, "SHA256_Transform_shani"))
    shape = [
        r"S3210 = _mm_loadu_si128\(\(const __m128i \*\)&state\[0\]\); S7654 = _mm_loadu_si128\(\(const __m128i \*\)&state\[4\]\);",
        r"S0123 = _mm_shuffle_epi32\(S3210, \w+\); S4567 = _mm_shuffle_epi32\(S7654, \w+\); "
        r"S0145 = _mm_unpackhi_epi64\(S4567, S0123\); S2367 = _mm_unpacklo_epi64\(S4567, S0123\);",
        r"W\[0\] = be32dec_128\(&block\[0\]\); W\[1\] = be32dec_128\(&block\[16\]\); W\[2\] = be32dec_128\(&block\[32\]\); W\[3\] = be32dec_128\(&block\[48\]\);",
        r"S\[0\] = S0145; S\[1\] = S2367;",
        r"S0145 = _mm_add_epi32\(S0145, S\[0\]\); S2367 = _mm_add_epi32\(S2367, S\[1\]\);",
        r"S0123 = _mm_unpackhi_epi64\(S2367, S0145\); S4567 = _mm_unpacklo_epi64\(S2367, S0145\); "
        r"S3210 = _mm_shuffle_epi32\(S0123, \w+\); S7654 = _mm_shuffle_epi32\(S4567, \w+\); "
        r"_mm_storeu_si128\(\(__m128i \*\)&state\[0\], S3210\); _mm_storeu_si128\(\(__m128i \*\)&state\[4\], S7654\);",
    ]
    ok = all(re.search(pat, tb) for pat in shape)
    bd = re.sub(r"\s+", " ", _fn_body(s3, "be32dec_128"))
    ok = ok and bool(re.search(r"x = _mm_loadu_si128\(\(const __m128i \*\)src\); return \(_mm_shuffle_epi8\(x, SHUF\)\);", bd))
    out += "/-- the straight-line parts of `SHA256_Transform_shani` (state load / shuffle / unpack, block loads, final add / unpack /\n"
    out += "    shuffle / store) have the shape `Model.CpuPaths.transformShani` follows -/\n"
    out += "def shaniShapeRecognised : Bool := %s\n" % ("true" if ok else "false")

    # ---------------------------------------------------------------- crypto_aes_aesni.c
    s4 = strip_c_comments(read(repo, "crypto/crypto_aes_aesni.c"))
    out += "\n/-! `crypto_aes_aesni.c` -/\n"

    def mk(name, back):
        t = re.sub(r"\s+", " ", _macro(s4, name))
        mm = re.search(r"__m128i _s = rkeys\[i - (\d)\]; __m128i _t = rkeys\[i - (\d)\]; "
                       r"_s = _mm_xor_si128\(_s, _mm_slli_si128\(_s, (\d+)\)\); _s = _mm_xor_si128\(_s, _mm_slli_si128\(_s, (\d+)\)\); "
                       r"_t = _mm_aeskeygenassist_si128\(_t, rcon\); _t = _mm_shuffle_epi32\(_t, (\w+)\); rkeys\[i\] = _mm_xor_si128\(_s, _t\);", t)
        if not mm:
            msgs.append(name + " macro changed: " + t)
            return [0, 0, 0, 0], "0"
        return [int(mm.group(k)) for k in (1, 2, 3, 4)], mm.group(5)
    sh128, shuf128 = mk("MKRKEY128", 1)
    sh256, shuf256 = mk("MKRKEY256", 2)
    out += "/-- `MKRKEY128`: `_s = rkeys[i - a]`, `_t = rkeys[i - b]`, the two `slli_si128` byte counts -/\n"
    out += "def aesniMkrkey128 : List Nat := %s\n" % _nats(sh128)
    try:
        out += "def aesniShuffle128 : Nat := %d\n" % int(shuf128, 0)
    except ValueError:
        msgs.append("MKRKEY128 shuffle is not a literal")
        out += "def aesniShuffle128 : Nat := 0\n"
    out += "def aesniMkrkey256 : List Nat := %s\n" % _nats(sh256)
    if shuf256 != "shuffle":
        msgs.append("MKRKEY256 shuffle is not the macro parameter")
    k128 = re.findall(r"MKRKEY128\(rkeys, (\d+), (0x[0-9a-fA-F]+)\);", s4)
    if [int(i) for i, _ in k128] != list(range(1, 11)):
        msgs.append("crypto_aes_key_expand_128_aesni: MKRKEY128 sequence changed")
    out += "def aesniRcon128 : List UInt8 := [%s]\n" % ", ".join(r for _, r in k128)
    k256 = re.findall(r"MKRKEY256\(rkeys, (\d+), (0x[0-9a-fA-F]+), (0x[0-9a-fA-F]+)\);", s4)
    if [int(i) for i, _, _ in k256] != list(range(2, 15)):
        msgs.append("crypto_aes_key_expand_256_aesni: MKRKEY256 sequence changed")
    out += "def aesniShufRcon256 : List (Nat × UInt8) := [%s]\n" % ", ".join("(%s, %s)" % (a, b) for _, a, b in k256)
    b128 = re.sub(r"\s+", " ", _fn_body(s4, "crypto_aes_key_expand_128_aesni"))
    b256 = re.sub(r"\s+", " ", _fn_body(s4, "crypto_aes_key_expand_256_aesni"))
    ok = "rkeys[0] = _mm_loadu_si128((const __m128i *)&key_unexpanded[0]);" in b128
    ok = ok and "rkeys[0] = _mm_loadu_si128((const __m128i *)&key_unexpanded[0]); rkeys[1] = _mm_loadu_si128((const __m128i *)&key_unexpanded[16]);" in b256
    eb = re.sub(r"\s+", " ", _fn_body(s4, "crypto_aes_encrypt_block_aesni_m128i"))
    m = re.search(r"aes_state = _mm_xor_si128\(aes_state, aes_key\[(\d+)\]\); ((?:aes_state = _mm_aesenc_si128\(aes_state, aes_key\[\d+\]\); )+)"
                  r"if \(nr > (\d+)\) \{ ((?:aes_state = _mm_aesenc_si128\(aes_state, aes_key\[\d+\]\); )+)\} "
                  r"aes_state = _mm_aesenclast_si128\(aes_state, aes_key\[nr\]\); return \(aes_state\);", eb)
    if not m:
        msgs.append("crypto_aes_encrypt_block_aesni_m128i: body changed")
    idx = lambda t: [int(x) for x in re.findall(r"aes_key\[(\d+)\]", t)]
    out += "/-- `crypto_aes_encrypt_block_aesni_m128i`: index of the initial xor, the unconditional `aesenc` keys, the bound in\n"
    out += "    `if (nr > N)`, the conditional `aesenc` keys; the last round uses `aes_key[nr]` -/\n"
    out += "def aesniEncXor : Nat := %d\n" % (int(m.group(1)) if m else 99)
    out += "def aesniEncFirst : List Nat := %s\n" % _nats(idx(m.group(2)) if m else [])
    out += "def aesniNrSplit : Nat := %d\n" % (int(m.group(3)) if m else 0)
    out += "def aesniEncSecond : List Nat := %s\n" % _nats(idx(m.group(4)) if m else [])
    kb = re.sub(r"\s+", " ", _fn_body(s4, "crypto_aes_key_expand_aesni"))
    m = re.search(r"if \(len == (\d+)\) \{ kexp->nr = (\d+); crypto_aes_key_expand_128_aesni\(key_unexpanded, kexp->rkeys\); \} "
                  r"else if \(len == (\d+)\) \{ kexp->nr = (\d+); crypto_aes_key_expand_256_aesni\(key_unexpanded, kexp->rkeys\); \} else \{", kb)
    if not m:
        msgs.append("crypto_aes_key_expand_aesni: body changed")
    out += "def aesniKeyLen128 : Nat := %d\ndef aesniNr128 : Nat := %d\n" % ((int(m.group(1)), int(m.group(2))) if m else (0, 0))
    out += "def aesniKeyLen256 : Nat := %d\ndef aesniNr256 : Nat := %d\n" % ((int(m.group(3)), int(m.group(4))) if m else (0, 0))
    out += "def aesniLoadsRecognised : Bool := %s\n" % ("true" if ok else "false")
    out += "\nend Percival.Gen.CpuPaths\n"
    return "CpuPaths", out, msgs
