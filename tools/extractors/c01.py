"""C01: constants and macro shapes of alg/sha256.c, alg/sha1.c, alg/md5.c, alg/crc32c.c -> Gen/*.lean.

Data (tables, initial states, rotation amounts, per-line macro arguments) becomes Lean literals.
Macro *bodies* cannot be data; they are compared (whitespace-normalised) with the text the Lean
model was written from, and a difference is reported as a broken tie (exception -> message)."""
import re
from extract_core import extractor, read, strip_c_comments, c_array, c_ints, c_define, lean_list

HDR = "-- GENERATED from %s by tools/extractors/c01.py on every run; do not edit\n"


def norm(s):
    return re.sub(r"\s+", "", s)


def macro(src, name):
    """body of a (possibly multi-line, possibly function-like) #define, continuation lines joined"""
    s = strip_c_comments(src).replace("\\\n", " ")
    m = re.search(r"^\s*#\s*define\s+" + re.escape(name) + r"\b(\([^)]*\))?\s+(.*?)\s*$", s, re.M)
    if not m:
        raise KeyError("#define %s not found" % name)
    return (m.group(1) or "") + "=" + m.group(2)


def expect_macro(src, name, want):
    got = norm(macro(src, name))
    if got != norm(want):
        raise ValueError("macro %s changed: %s (model was written from %s)" % (name, got, norm(want)))


def func_body(src, name):
    s = strip_c_comments(src)
    m = re.search(r"^" + re.escape(name) + r"\s*\([^)]*\)\s*\{(.*?)^\}", s, re.M | re.S)
    if not m:
        raise KeyError("function %s not found" % name)
    return m.group(1)


def nat_list(name, vals, per_line=16):
    lines = []
    for i in range(0, len(vals), per_line):
        lines.append("  " + ", ".join("%d" % v for v in vals[i:i + per_line]))
    return "def %s : List Nat := [\n%s]\n" % (name, ",\n".join(lines))


def rot_amounts(src, name):
    """numbers inside e.g. `#define S0(x) (ROTR(x, 2) ^ ROTR(x, 13) ^ ROTR(x, 22))`, with the op names"""
    body = macro(src, name)
    ops = re.findall(r"(ROTR|SHR)\(x,\s*(\d+)\)", body)
    if len(ops) != 3 or norm(body) != norm("(x)=(%s(x,%s)^%s(x,%s)^%s(x,%s))" % sum(ops, ())):
        raise ValueError("macro %s has an unexpected shape: %s" % (name, body))
    return ops


def init_assignments(src, fn, n):
    body = func_body(src, fn)
    vals = []
    for i in range(n):
        m = re.search(r"ctx->state\[%d\]\s*=\s*(0[xX][0-9a-fA-F]+)\s*;" % i, body)
        if not m:
            raise KeyError("%s: ctx->state[%d] = ... not found" % (fn, i))
        vals.append(int(m.group(1), 16))
    return vals


@extractor(soft=True)
def sha256_consts(repo):
    src = read(repo, "alg/sha256.c")
    K = c_ints(c_array(src, "Krnd"))
    iv = c_ints(c_array(src, "initial_state"))
    pad = c_ints(c_array(src, "PAD"))
    if len(K) != 64 or len(iv) != 8 or len(pad) != 64:
        raise ValueError("sha256.c: table sizes %d/%d/%d" % (len(K), len(iv), len(pad)))
    expect_macro(src, "Ch", "(x, y, z) ((x & (y ^ z)) ^ z)".replace(") (", ")=(", 1))
    expect_macro(src, "Maj", "(x, y, z)=((x & (y | z)) | (y & z))")
    expect_macro(src, "SHR", "(x, n)=(x >> n)")
    expect_macro(src, "ROTR", "(x, n)=((x >> n) | (x << (32 - n)))")
    expect_macro(src, "RND", "(a, b, c, d, e, f, g, h, k)=h += S1(e) + Ch(e, f, g) + k; d += h; h += S0(a) + Maj(a, b, c)")
    expect_macro(src, "RNDr", "(S, W, i, ii)=RND(S[(64 - i) % 8], S[(65 - i) % 8], S[(66 - i) % 8], S[(67 - i) % 8], "
                 "S[(68 - i) % 8], S[(69 - i) % 8], S[(70 - i) % 8], S[(71 - i) % 8], W[i + ii] + Krnd[i + ii])")
    expect_macro(src, "MSCH", "(W, ii, i)=W[i + ii + 16] = s1(W[i + ii + 14]) + W[i + ii + 9] + s0(W[i + ii + 1]) + W[i + ii]")
    rots = {}
    for nm in ("S0", "S1", "s0", "s1"):
        ops = rot_amounts(src, nm)
        want = ["ROTR", "ROTR", "ROTR"] if nm in ("S0", "S1") else ["ROTR", "ROTR", "SHR"]
        if [o for o, _ in ops] != want:
            raise ValueError("macro %s: operations %s" % (nm, ops))
        rots[nm] = [int(n) for _, n in ops]
    # the mixing loop: 16 RNDr then (unless i == 48) 16 MSCH, i += 16
    body = norm(func_body(src, "SHA256_Transform"))
    loop = "for(i=0;i<64;i+=16){" + "".join("RNDr(S,W,%d,i);" % j for j in range(16)) + "if(i==48)break;" + \
           "".join("MSCH(W,%d,i);" % j for j in range(16)) + "}"
    if loop not in body:
        raise ValueError("SHA256_Transform: mixing loop changed")
    if norm("be32dec_vect(W, block, 64); memcpy(S, state, 32);") not in body or \
       norm("for (i = 0; i < 8; i++) state[i] += S[i];") not in body:
        raise ValueError("SHA256_Transform: prologue/epilogue changed")
    # the length-to-bits conversion cannot be reached by tests (it differs only for len >= 2^61): compare its text
    if norm("r = (ctx->count >> 3) & 0x3f; ctx->count += (uint64_t)(len) << 3;") not in norm(func_body(src, "SHA256_Update_internal")):
        raise ValueError("SHA256_Update_internal: bit-count update changed")
    t = HDR % "alg/sha256.c" + "namespace Percival.Gen.Sha256\n"
    t += lean_list("Krnd", "UInt32", K)
    t += lean_list("initialState", "UInt32", iv)
    t += lean_list("PAD", "UInt8", pad, per_line=16, fmt="0x%02x")
    t += "/-- rotation / shift amounts inside the macros S0, S1 (ROTR,ROTR,ROTR) and s0, s1 (ROTR,ROTR,SHR) -/\n"
    for nm, lean in (("S0", "bigS0"), ("S1", "bigS1"), ("s0", "smallS0"), ("s1", "smallS1")):
        t += "def %s : UInt32 × UInt32 × UInt32 := (%d, %d, %d)\n" % ((lean,) + tuple(rots[nm]))
    t += "end Percival.Gen.Sha256\n"
    return "Sha256Consts", t, []


def rnd_lines(src, fn, pat):
    body = func_body(src, fn)
    return re.findall(pat, body)


@extractor(soft=True)
def sha1_consts(repo):
    src = read(repo, "alg/sha1.c")
    iv = init_assignments(src, "SHA1_Init", 5)
    pad = c_ints(c_array(src, "PAD"))
    if len(pad) != 64:
        raise ValueError("sha1.c: PAD size %d" % len(pad))
    expect_macro(src, "ROTL", "(x, n)=((x << n) | (x >> (32 - n)))")
    expect_macro(src, "Ch", "(x, y, z)=((x & (y ^ z)) ^ z)")
    expect_macro(src, "Maj", "(x, y, z)=((x & (y | z)) | (y & z))")
    fn = {0: "Ch(b, c, d)", 1: "(b ^ c ^ d)", 2: "Maj(b, c, d)", 3: "(b ^ c ^ d)"}
    ks = []
    for k in range(4):
        body = macro(src, "RND%d" % k)
        m = re.search(r"\+\s*k\s*\+\s*(0[xX][0-9a-fA-F]+)\s*;", body)
        if not m:
            raise ValueError("RND%d: constant not found" % k)
        ks.append(int(m.group(1), 16))
        expect_macro(src, "RND%d" % k, "(a, b, c, d, e, k)=do { e = ROTL(a, 5) + %s + e + k + %s; b = ROTL(b, 30); } while (0)"
                     % (fn[k], m.group(1)))
        expect_macro(src, "RND%dr" % k, "(S, W, i)=RND%d(S[(80 - i) %% 5], S[(81 - i) %% 5], S[(82 - i) %% 5], S[(83 - i) %% 5], "
                     "S[(84 - i) %% 5], W[i])" % k)
    lines = rnd_lines(src, "SHA1_Transform", r"RND(\d)r\(S,\s*W,\s*(\d+)\)\s*;")
    if [int(i) for _, i in lines] != list(range(80)):
        raise ValueError("SHA1_Transform: the 80 round lines are not numbered 0..79 in order")
    body = norm(func_body(src, "SHA1_Transform"))
    if norm("be32dec_vect(W, block, 64); for (i = 16; i < 80; i++) { W[i] = W[i - 3] ^ W[i - 8] ^ W[i - 14] ^ W[i - 16]; "
            "W[i] = ROTL(W[i], 1); } memcpy(S, state, 20);") not in body or \
       norm("for (i = 0; i < 5; i++) state[i] += S[i];") not in body:
        raise ValueError("SHA1_Transform: schedule/prologue/epilogue changed")
    # the high part of the length (len >> 29) only matters for len >= 512 MiB, out of reach of the tests: compare text
    if norm("r = (ctx->count[1] >> 3) & 0x3f; bitlen[1] = ((uint32_t)len) << 3; bitlen[0] = (uint32_t)(len >> 29); "
            "if ((ctx->count[1] += bitlen[1]) < bitlen[1]) ctx->count[0]++; ctx->count[0] += bitlen[0];") not in norm(func_body(src, "SHA1_Update")):
        raise ValueError("SHA1_Update: bit-count update changed")
    t = HDR % "alg/sha1.c" + "namespace Percival.Gen.Sha1\n"
    t += lean_list("initialState", "UInt32", iv)
    t += lean_list("PAD", "UInt8", pad, per_line=16, fmt="0x%02x")
    t += "/-- the constants inside RND0 .. RND3 -/\n" + lean_list("roundK", "UInt32", ks)
    t += "/-- which macro (RND0r .. RND3r) line i of SHA1_Transform uses -/\n" + nat_list("roundKind", [int(k) for k, _ in lines], 20)
    t += "end Percival.Gen.Sha1\n"
    return "Sha1Consts", t, []


@extractor(soft=True)
def md5_consts(repo):
    src = read(repo, "alg/md5.c")
    iv = init_assignments(src, "MD5_Init", 4)
    pad = c_ints(c_array(src, "PAD"))
    if len(pad) != 64:
        raise ValueError("md5.c: PAD size %d" % len(pad))
    expect_macro(src, "ROTL", "(x, n)=((x << n) | (x >> (32 - n)))")
    expect_macro(src, "F", "(x, y, z)=((x & (y ^ z)) ^ z)")
    expect_macro(src, "G", "(x, y, z)=((z & (x ^ y)) ^ y)")
    expect_macro(src, "H", "(x, y, z)=(x ^ y ^ z)")
    expect_macro(src, "I", "(x, y, z)=(((x) | (~z)) ^ y)")
    mult = {}
    for nm, f in (("FF", "F"), ("GG", "G"), ("HH", "H"), ("II", "I")):
        expect_macro(src, nm, "(a, b, c, d, x, s)=a = b + ROTL((a + %s(b, c, d) + x), s)" % f)
        body = macro(src, nm + "r")
        m = re.search(r"W\[\(i \* (\d+) \+ (\d+)\) % 16\]", body)
        if not m:
            raise ValueError("%sr: word index formula not found" % nm)
        mult[nm] = (int(m.group(1)), int(m.group(2)))
        expect_macro(src, nm + "r", "(S, W, i, s, T)=%s(S[(64 - i) %% 4], S[(65 - i) %% 4], S[(66 - i) %% 4], S[(67 - i) %% 4], "
                     "W[(i * %d + %d) %% 16] + T, s)" % (nm, mult[nm][0], mult[nm][1]))
    lines = rnd_lines(src, "MD5_Transform", r"(FF|GG|HH|II)r\(S,\s*W,\s*(\d+),\s*(\d+),\s*(0[xX][0-9a-fA-F]+)\)\s*;")
    if [int(l[1]) for l in lines] != list(range(64)):
        raise ValueError("MD5_Transform: the 64 step lines are not numbered 0..63 in order")
    body = norm(func_body(src, "MD5_Transform"))
    if norm("le32dec_vect(W, block, 64); memcpy(S, state, 16);") not in body or \
       norm("for (i = 0; i < 4; i++) state[i] += S[i];") not in body:
        raise ValueError("MD5_Transform: prologue/epilogue changed")
    kind = {"FF": 0, "GG": 1, "HH": 2, "II": 3}
    if norm("r = (ctx->count[0] >> 3) & 0x3f; bitlen[0] = ((uint32_t)len) << 3; bitlen[1] = (uint32_t)(len >> 29); "
            "if ((ctx->count[0] += bitlen[0]) < bitlen[0]) ctx->count[1]++; ctx->count[1] += bitlen[1];") not in norm(func_body(src, "MD5_Update")):
        raise ValueError("MD5_Update: bit-count update changed")
    t = HDR % "alg/md5.c" + "namespace Percival.Gen.Md5\n"
    t += lean_list("initialState", "UInt32", iv)
    t += lean_list("PAD", "UInt8", pad, per_line=16, fmt="0x%02x")
    t += "/-- which macro (FFr=0, GGr=1, HHr=2, IIr=3) line i of MD5_Transform uses -/\n" + nat_list("stepKind", [kind[l[0]] for l in lines])
    t += "/-- the shift argument s of line i -/\n" + lean_list("stepShift", "UInt32", [int(l[2]) for l in lines], per_line=16, fmt="%d")
    t += "/-- the constant argument T of line i -/\n" + lean_list("stepT", "UInt32", [int(l[3], 16) for l in lines])
    t += "/-- (m, a) of the word index `(i * m + a) % 16` in FFr, GGr, HHr, IIr -/\n"
    t += "def wordIndex : List (Nat × Nat) := [%s]\n" % ", ".join("(%d, %d)" % mult[nm] for nm in ("FF", "GG", "HH", "II"))
    t += "end Percival.Gen.Md5\n"
    return "Md5Consts", t, []


@extractor(soft=True)
def crc32c_consts(repo):
    src = read(repo, "alg/crc32c.c")
    t080 = int(c_define(src, "T_0_0x80"), 16)
    body = func_body(src, "times256")
    m = re.search(r"r\s*=\s*\(r\s*<<\s*1\)\s*\^\s*(0[xX][0-9a-fA-F]+)\s*;", body)
    if not m:
        raise ValueError("times256: polynomial not found")
    poly = int(m.group(1), 16)
    if norm("for (k = 0; k < 8; k++) { if (r & 0x80000000) r = (r << 1) ^ %s; else r = (r << 1); } return (r);" % m.group(1)) not in norm(body):
        raise ValueError("times256 changed")
    rev = norm(func_body(src, "reverse"))
    masks = [("0xffff0000", 16, "0x0000ffff"), ("0xff00ff00", 8, "0x00ff00ff"), ("0xf0f0f0f0", 4, "0x0f0f0f0f"),
             ("0xcccccccc", 2, "0x33333333"), ("0xaaaaaaaa", 1, "0x55555555")]
    want = "".join("x=((x&%s)>>%d)|((x&%s)<<%d);" % (a, n, b, n) for a, n, b in masks) + "return(x);"
    if want not in rev:
        raise ValueError("reverse changed")
    ini = norm(func_body(src, "init"))
    if norm("for (i = 0; i < 256; i++) { r = reverse((uint32_t)i); T0[i] = reverse(r = times256(r)); T1[i] = reverse(r = times256(r)); "
            "T2[i] = reverse(r = times256(r)); T3[i] = reverse(r = times256(r));") not in ini:
        raise ValueError("crc32c init() changed")
    upd = norm(func_body(src, "CRC32C_Update"))
    if norm("for (; len >= 4; len -= 4, buf += 4) { ctx->state = T0[((ctx->state >> 24) & 0xff) ^ buf[3]] ^ "
            "T1[((ctx->state >> 16) & 0xff) ^ buf[2]] ^ T2[((ctx->state >> 8) & 0xff) ^ buf[1]] ^ T3[((ctx->state) & 0xff) ^ buf[0]]; }"
            "for (; len > 0; len--, buf++) { ctx->state = (ctx->state >> 8) ^ T0[((ctx->state) & 0xff) ^ buf[0]]; }") not in upd:
        raise ValueError("CRC32C_Update software loops changed")
    if norm("ctx->state = T_0_0x80;") not in norm(func_body(src, "CRC32C_Init")):
        raise ValueError("CRC32C_Init changed")
    t = HDR % "alg/crc32c.c" + "namespace Percival.Gen.Crc32c\n"
    t += "/-- the constant xored in by times256 -/\ndef poly : UInt32 := 0x%08x\n" % poly
    t += "/-- `#define T_0_0x80`, the initial state -/\ndef t0x80 : UInt32 := 0x%08x\n" % t080
    t += "end Percival.Gen.Crc32c\n"
    return "Crc32cConsts", t, []
