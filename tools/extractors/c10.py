"""C10: Diffie-Hellman constants from crypto/crypto_dh.c, crypto_dh_group14.c, crypto_dh.h."""
import re
from extract_core import extractor, read, strip_c_comments, c_array, c_ints, c_define


def executions(body, pattern):
    """how often a statement matching `pattern` is executed: each textual occurrence counts once, or (B - A) times when it
    sits in the body of a counting loop `for (i = A; i < B; i++) { ... }` with literal bounds (the same thing written as a loop)"""
    loops = []
    for m in re.finditer(r"for\s*\(\s*(\w+)\s*=\s*(\d+)\s*;\s*\1\s*<\s*(\d+)\s*;\s*(?:\1\s*\+\+|\+\+\s*\1)\s*\)\s*\{", body):
        depth, j = 0, m.end() - 1
        while j < len(body):
            if body[j] == "{":
                depth += 1
            elif body[j] == "}":
                depth -= 1
                if depth == 0:
                    break
            j += 1
        loops.append((m.end(), j, int(m.group(3)) - int(m.group(2))))
    total = 0
    for m in re.finditer(pattern, body):
        w = 1
        for a, b, n in loops:
            if a <= m.start() < b:
                w *= max(n, 0)
        total += w
    return total


@extractor(soft=True)
def dh_consts(repo):
    msgs = []
    g14 = c_ints(c_array(read(repo, "crypto/crypto_dh_group14.c"), "crypto_dh_group14"))
    dh = read(repo, "crypto/crypto_dh.c")
    two = c_ints(c_array(dh, "two_exp_256"))
    hdr = read(repo, "crypto/crypto_dh.h")
    publen = int(c_define(hdr, "CRYPTO_DH_PUBLEN"), 0)
    privlen = int(c_define(hdr, "CRYPTO_DH_PRIVLEN"), 0)
    keylen = int(c_define(hdr, "CRYPTO_DH_KEYLEN"), 0)
    body = strip_c_comments(dh)
    # how many times two_exp_256 is added to priv_bn / blinding_bn
    n_priv = executions(body, r"BN_add\(\s*priv_bn\s*,\s*priv_bn\s*,\s*two_exp_256_bn\s*\)")
    n_blind = executions(body, r"BN_add\(\s*blinding_bn\s*,\s*blinding_bn\s*,\s*two_exp_256_bn\s*\)")
    m = re.search(r"BN_bin2bn\(\s*two_exp_256\s*,\s*(\d+)", body)
    two_len = int(m.group(1)) if m else -1
    m = re.search(r"BN_bin2bn\(\s*crypto_dh_group14\s*,\s*(\d+)", body)
    mod_len = int(m.group(1)) if m else -1
    m = re.search(r"memcmp\(\s*pub\s*,\s*crypto_dh_group14\s*,\s*(\d+)\s*\)\s*(>=|>|<=|<|==|!=)\s*0", body)
    cmp_len, cmp_op = (int(m.group(1)), m.group(2)) if m else (-1, "?")
    # the same test written negated: !(memcmp(...) < 0)  is  memcmp(...) >= 0
    mn = re.search(r"!\s*\(\s*memcmp\(\s*pub\s*,\s*crypto_dh_group14\s*,\s*(\d+)\s*\)\s*(>=|>|<=|<|==|!=)\s*0\s*\)", body)
    if mn:
        cmp_len = int(mn.group(1))
        cmp_op = {"<": ">=", "<=": ">", ">": "<=", ">=": "<", "==": "!=", "!=": "=="}[mn.group(2)]
    elif not m:
        msgs.append("crypto_dh_sanitycheck: memcmp comparison not found")
    if n_priv == 0 or n_blind == 0:
        msgs.append("blinded_modexp: BN_add pattern not found")
    def bl(xs):
        return "[" + ", ".join("0x%02x" % x for x in xs) + "]"
    txt = "-- GENERATED from /repo/crypto/crypto_dh*.c by tools/extractors/c10.py; do not edit\n"
    txt += "namespace Percival.Gen.DH\n\n"
    txt += "def group14 : List UInt8 := %s\n\n" % bl(g14)
    txt += "def twoExp256 : List UInt8 := %s\n\n" % bl(two)
    txt += "def twoExp256Len : Nat := %d\n" % two_len
    txt += "def modulusLen : Nat := %d\n" % mod_len
    txt += "def nAddPriv : Nat := %d\n" % n_priv
    txt += "def nAddBlinding : Nat := %d\n" % n_blind
    txt += "def publen : Nat := %d\ndef privlen : Nat := %d\ndef keylen : Nat := %d\n" % (publen, privlen, keylen)
    txt += "def sanityCmpLen : Nat := %d\n" % cmp_len
    txt += "/-- `crypto_dh_sanitycheck` rejects when `memcmp(pub, group14, n) <op> 0` -/\n"
    txt += "def sanityRejectOp : String := \"%s\"\n" % cmp_op
    txt += "\nend Percival.Gen.DH\n"
    return "DH", txt, msgs
