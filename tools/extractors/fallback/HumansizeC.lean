-- FALLBACK copy (documented constants; used only when the translator does not recognise the source)
-- GENERATED from util/humansize.c by tools/extractors/c16.py
namespace Percival.Gen.HumansizeC
def prefixes : List UInt8 := [
  0x20, 0x6b, 0x4d, 0x47, 0x54, 0x50, 0x45]
def smallLimit : Nat := 1000
def firstDiv : Nat := 100
def firstShift : Nat := 1
def loopLimit : Nat := 10000
def loopDiv : Nat := 1000
def decimalLimit : Nat := 100
/-- SI switch of humansize_parse: (label, factor applied at that label), in fall-through order -/
def siCases : List (UInt8 × Nat) := [(0x45, 1000), (0x50, 1000), (0x54, 1000), (0x47, 1000), (0x4d, 1000), (0x6b, 1000)]
end Percival.Gen.HumansizeC
