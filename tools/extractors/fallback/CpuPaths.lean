-- FALLBACK copy (documented constants; used only when the translator does not recognise the source)
-- GENERATED from /repo/alg/{crc32c,crc32c_sse42,sha256,sha256_sse2,sha256_shani}.c and
-- /repo/crypto/crypto_aesctr.c by tools/extractors/c03.py; do not edit
namespace Percival.Gen.CpuPaths

/-! `CRC32C_Update_SSE42` -/
def sse42MinLen : Nat := 8
def sse42I0 : Nat := 0
def sse42PreSub : Nat := 8
def sse42PreMask : Nat := 7
def sse42BlockMod : Nat := 8
def sse42BodyCmp : String := "<"
def sse42Stride : Nat := 8
/-- (offset from `i`, width in bytes) of the loads in one body iteration, in order -/
def sse42Loads64 : List (Nat × Nat) := [(0, 8)]
def sse42Loads32 : List (Nat × Nat) := [(0, 4), (4, 4)]
def sse42TailBound : Nat := 8

/-! dispatch in `CRC32C_Update` / `crypto_aesctr_stream` -/
def crcDispatchMinLen : Nat := 8
def crcInitState : UInt32 := 0x82f63b78
def ctrDispatchMinLen : Nat := 16

/-! `sha256_sse2.c` -/
def sse2K : List UInt32 := [
  0x428a2f98, 0x71374491, 0xb5c0fbcf, 0xe9b5dba5, 0x3956c25b, 0x59f111f1, 0x923f82a4, 0xab1c5ed5,
  0xd807aa98, 0x12835b01, 0x243185be, 0x550c7dc3, 0x72be5d74, 0x80deb1fe, 0x9bdc06a7, 0xc19bf174,
  0xe49b69c1, 0xefbe4786, 0x0fc19dc6, 0x240ca1cc, 0x2de92c6f, 0x4a7484aa, 0x5cb0a9dc, 0x76f988da,
  0x983e5152, 0xa831c66d, 0xb00327c8, 0xbf597fc7, 0xc6e00bf3, 0xd5a79147, 0x06ca6351, 0x14292967,
  0x27b70a85, 0x2e1b2138, 0x4d2c6dfc, 0x53380d13, 0x650a7354, 0x766a0abb, 0x81c2c92e, 0x92722c85,
  0xa2bfe8a1, 0xa81a664b, 0xc24b8b70, 0xc76c51a3, 0xd192e819, 0xd6990624, 0xf40e3585, 0x106aa070,
  0x19a4c116, 0x1e376c08, 0x2748774c, 0x34b0bcb5, 0x391c0cb3, 0x4ed8aa4a, 0x5b9cca4f, 0x682e6ff3,
  0x748f82ee, 0x78a5636f, 0x84c87814, 0x8cc70208, 0x90befffa, 0xa4506ceb, 0xbef9a3f7, 0xc67178f2]
def sse2S0 : List Nat := [7, 18, 3]
/-- `s1_128_high`: first shuffle, the two `srli_epi64` counts, the `srli_epi32` count, second shuffle, `slli_si128` bytes -/
def sse2S1High : List Nat × List Nat × Nat × List Nat × Nat := ([1, 1, 0, 0], [17, 19], 10, [2, 0, 2, 0], 8)
/-- `s1_128_low`: the same with `srli_si128` -/
def sse2S1Low : List Nat × List Nat × Nat × List Nat × Nat := ([3, 3, 2, 2], [17, 19], 10, [2, 0, 2, 0], 8)
def sse2SpanShuf : List Nat := [0, 3, 2, 1]
/-- `mm_bswap_epi32`: `slli_epi16` count, `srli_epi16` count, `shufflelo_epi16`, `shufflehi_epi16` -/
def sse2Bswap : Nat × Nat × List Nat × List Nat := (8, 8, [2, 3, 0, 1], [2, 3, 0, 1])
/-- `MSG4`: arguments of the two `SPAN_ONE_THREE`s (W[j-7..], W[j-15..]), the first addend, the argument of `s1_128_low` -/
def sse2Msg4Args : List Nat := [2, 3, 0, 1, 0, 3]
/-- (Y index, byte offset in block, word offset in W) of the four loads -/
def sse2Loads : List (Nat × Nat × Nat) := [(0, 0, 0), (1, 16, 4), (2, 32, 8), (3, 48, 12)]
/-- (destination Y, the four argument Ys, word offset of the store relative to `i`) per `MSG4` call -/
def sse2Msg4Calls : List (Nat × List Nat × Nat) := [(0, [0, 1, 2, 3], 16), (1, [1, 2, 3, 0], 20), (2, [2, 3, 0, 1], 24), (3, [3, 0, 1, 2], 28)]
/-- outer loop `for (i = a; i < b; i += c)` and the `if (i == d) break;` before the schedule step -/
def sse2Loop : List Nat := [0, 64, 16, 48]
def sse2RoundsPerIter : List Nat := [0, 1, 2, 3, 4, 5, 6, 7, 8, 9, 10, 11, 12, 13, 14, 15]
/-- `Ch Maj ROTR S0 S1 RND RNDr`, the sixteen `RNDr` lines, `memcpy(S, state, 32)` and the final `state[i] += S[i]`
    are textually identical in `sha256_sse2.c` and `sha256.c` -/
def sse2RoundCodeSameAsPortable : Bool := true

/-! `sha256_shani.c`: the constants of the sixteen `RNDMSG` lines, in order -/
def shaniK : List UInt32 := [
  0x428a2f98, 0x71374491, 0xb5c0fbcf, 0xe9b5dba5, 0x3956c25b, 0x59f111f1, 0x923f82a4, 0xab1c5ed5,
  0xd807aa98, 0x12835b01, 0x243185be, 0x550c7dc3, 0x72be5d74, 0x80deb1fe, 0x9bdc06a7, 0xc19bf174,
  0xe49b69c1, 0xefbe4786, 0x0fc19dc6, 0x240ca1cc, 0x2de92c6f, 0x4a7484aa, 0x5cb0a9dc, 0x76f988da,
  0x983e5152, 0xa831c66d, 0xb00327c8, 0xbf597fc7, 0xc6e00bf3, 0xd5a79147, 0x06ca6351, 0x14292967,
  0x27b70a85, 0x2e1b2138, 0x4d2c6dfc, 0x53380d13, 0x650a7354, 0x766a0abb, 0x81c2c92e, 0x92722c85,
  0xa2bfe8a1, 0xa81a664b, 0xc24b8b70, 0xc76c51a3, 0xd192e819, 0xd6990624, 0xf40e3585, 0x106aa070,
  0x19a4c116, 0x1e376c08, 0x2748774c, 0x34b0bcb5, 0x391c0cb3, 0x4ed8aa4a, 0x5b9cca4f, 0x682e6ff3,
  0x748f82ee, 0x78a5636f, 0x84c87814, 0x8cc70208, 0x90befffa, 0xa4506ceb, 0xbef9a3f7, 0xc67178f2]
/-- `_mm_set_epi8(...)` of `be32dec_128`, as written (byte 15 first) -/
def shaniBswapSel : List Nat := [12, 13, 14, 15, 8, 9, 10, 11, 4, 5, 6, 7, 0, 1, 2, 3]
/-- immediates of the four `_mm_shuffle_epi32` (state in / state out) -/
def shaniStateShuf : List Nat := [27, 27, 27, 27]
/-- `RND4`: order of `K` in `IMM4`, then (dst, src1, src2) of the first `rnds2`, the `srli_si128` bytes, (dst, src1, src2) of the second -/
def shaniRnd4 : List Nat := [3, 2, 1, 0, 1, 1, 0, 8, 0, 0, 1]
/-- `MSG4(W, i)` of sha256_shani.c: the offsets `k` in `W[(i + k) % 4]` in textual order, with the `alignr` byte count -/
def shaniMsg4 : List Nat := [0, 0, 1, 0, 0, 3, 2, 4, 0, 0, 3]
/-- `RNDMSG`: `if (i < a) MSG4(W, i + b)` -/
def shaniRndMsg : List Nat := [12, 4]
/-- the straight-line parts of `SHA256_Transform_shani` (state load / shuffle / unpack, block loads, final add / unpack /
    shuffle / store) have the shape `Model.CpuPaths.transformShani` follows -/
def shaniShapeRecognised : Bool := true

/-! `crypto_aes_aesni.c` -/
/-- `MKRKEY128`: `_s = rkeys[i - a]`, `_t = rkeys[i - b]`, the two `slli_si128` byte counts -/
def aesniMkrkey128 : List Nat := [1, 1, 4, 8]
def aesniShuffle128 : Nat := 255
def aesniMkrkey256 : List Nat := [2, 1, 4, 8]
def aesniRcon128 : List UInt8 := [0x01, 0x02, 0x04, 0x08, 0x10, 0x20, 0x40, 0x80, 0x1b, 0x36]
def aesniShufRcon256 : List (Nat × UInt8) := [(0xff, 0x01), (0xaa, 0x00), (0xff, 0x02), (0xaa, 0x00), (0xff, 0x04), (0xaa, 0x00), (0xff, 0x08), (0xaa, 0x00), (0xff, 0x10), (0xaa, 0x00), (0xff, 0x20), (0xaa, 0x00), (0xff, 0x40)]
/-- `crypto_aes_encrypt_block_aesni_m128i`: index of the initial xor, the unconditional `aesenc` keys, the bound in
    `if (nr > N)`, the conditional `aesenc` keys; the last round uses `aes_key[nr]` -/
def aesniEncXor : Nat := 0
def aesniEncFirst : List Nat := [1, 2, 3, 4, 5, 6, 7, 8, 9]
def aesniNrSplit : Nat := 10
def aesniEncSecond : List Nat := [10, 11, 12, 13]
def aesniKeyLen128 : Nat := 16
def aesniNr128 : Nat := 10
def aesniKeyLen256 : Nat := 32
def aesniNr256 : Nat := 14
def aesniLoadsRecognised : Bool := true

end Percival.Gen.CpuPaths
