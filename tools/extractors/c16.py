"""C16: constants of util/humansize.c -> Gen/HumansizeC.lean.

Items: the prefix string indexed by `shiftcnt`, the thresholds of `humansize` (1000, 100, 10000,
1000, 100), and for `humansize_parse` the order of the fall-through `case` labels of the SI-prefix
switch together with the factor applied at each (so `E` = 6 factors, ..., `k` = 1 factor)."""
import re
from extract_core import extractor, read, strip_c_comments, lean_list


def _fn(src, name):
    m = re.search(r"^" + name + r"\(.*?^}", src, re.S | re.M)
    if not m:
        raise KeyError("function %s not found" % name)
    return m.group(0)


@extractor(soft=True)
def humansize_consts(repo):
    src = strip_c_comments(read(repo, "util/humansize.c"))
    msgs = []
    f = _fn(src, "humansize")
    ID = r"[A-Za-z_]\w*"
    m = re.search(r'=\s*"([^"]*)"\s*\[\s*' + ID + r'\s*\]', f)
    if not m:
        raise KeyError('prefix = "..."[shiftcnt] not found')
    prefixes = [ord(c) for c in m.group(1)]
    m1 = re.search(r"if\s*\(\s*size\s*<\s*(\d+)\s*\)\s*\{", f)
    m2 = re.search(r"for\s*\(\s*size\s*/=\s*(\d+)\s*,\s*(?:" + ID + r")\s*=\s*(\d+)\s*;\s*size\s*>=\s*(\d+)\s*;\s*(?:\+\+\s*" + ID + r"|" + ID + r"\s*\+\+)\s*\)\s*size\s*/=\s*(\d+)\s*;", f)
    m3 = re.search(r"if\s*\(\s*size\s*<\s*(\d+)\s*\)\s*" + ID + r"\s*=", f)
    if not (m1 and m2 and m3):
        raise KeyError("humansize: thresholds not found")
    p = _fn(src, "humansize_parse")
    # the SI switch: case 'E': multiplier *= 1000; case 'P': ... case 'k': multiplier *= 1000; break;
    m4 = re.search(r"switch\s*\(\s*\*s\s*\)\s*\{(.*?)break\s*;\s*\}", p, re.S)
    if not m4:
        raise KeyError("humansize_parse: SI switch not found")
    body = re.sub(r"\s+", "", m4.group(1))
    labels = re.findall(r"case'(.)':[A-Za-z_]\w*\*=(\d+);", body)
    if re.sub(r":[A-Za-z_]\w*\*=", ":M*=", body) != "".join("case'%s':M*=%s;" % lf for lf in labels):
        raise KeyError("humansize_parse: SI switch has an unexpected shape: %s" % body)
    txt = "-- GENERATED from util/humansize.c by tools/extractors/c16.py\nnamespace Percival.Gen.HumansizeC\n"
    txt += lean_list("prefixes", "UInt8", prefixes, fmt="0x%02x")
    txt += "def smallLimit : Nat := %s\n" % m1.group(1)
    txt += "def firstDiv : Nat := %s\ndef firstShift : Nat := %s\ndef loopLimit : Nat := %s\ndef loopDiv : Nat := %s\n" % m2.groups()
    txt += "def decimalLimit : Nat := %s\n" % m3.group(1)
    txt += "/-- SI switch of humansize_parse: (label, factor applied at that label), in fall-through order -/\n"
    txt += "def siCases : List (UInt8 × Nat) := [%s]\n" % ", ".join("(0x%02x, %s)" % (ord(c), f) for c, f in labels)
    txt += "end Percival.Gen.HumansizeC\n"
    return "HumansizeC", txt, msgs
