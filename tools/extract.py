#!/usr/bin/env python3
"""Translator for data: constants/tables of /repo's *current* source -> lean/Percival/Gen/*.lean.
Run at the start of every check.  A missing item is reported (broken tie), never skipped.
Extractors live in tools/extractors/*.py and register with @extract_core.extractor."""
import importlib, os, sys
sys.path.insert(0, os.path.dirname(os.path.abspath(__file__)))
import extract_core
from extract_core import write_if_changed   # re-exported for gen_main.py

_ed = os.path.join(os.path.dirname(os.path.abspath(__file__)), "extractors")
for _f in sorted(os.listdir(_ed)):
    if _f.endswith(".py") and _f != "__init__.py":
        importlib.import_module("extractors." + _f[:-3])


FALLBACK = os.path.join(_ed, "fallback")
MAPFILE = os.path.join(os.path.dirname(os.path.abspath(__file__)), "extractor_modules.json")


def regenerate(repo, outdir, detailed=False):
    """-> messages; with detailed=True a list of (Gen module name or None, message), so that a check can tell
    whether a broken extraction concerns a module its theorems depend on."""
    import json
    msgs = []
    try:
        mapping = json.load(open(MAPFILE))
    except Exception:
        mapping = {}
    newmap = dict(mapping)
    os.makedirs(outdir, exist_ok=True)
    for fn in extract_core.EXTRACTORS:
        soft = getattr(fn, "soft", False)
        known = mapping.get(fn.__name__)
        fb = os.path.join(FALLBACK, "%s.lean" % known) if known else None
        try:
            name, text, m = fn(repo)
            newmap[fn.__name__] = name
            if m and soft and os.path.exists(os.path.join(FALLBACK, name + ".lean")):
                # part of the source no longer has the shape the translator knows
                raise KeyError("; ".join(m))
            msgs += [(name, x) for x in m]
            write_if_changed(os.path.join(outdir, name + ".lean"), text)
        except Exception as e:   # the source no longer has the shape the extractor knows
            if soft and fb and os.path.exists(fb):
                write_if_changed(os.path.join(outdir, known + ".lean"), open(fb).read())
                msgs.append((known, "SOFT %s: %s — source shape not recognised; documented constants used for the model, "
                                    "tie = correspondence run only" % (fn.__name__, str(e)[:600])))
            else:
                msgs.append((known, "%s: %r" % (fn.__name__, e)))
    if newmap != mapping:
        try:
            with open(MAPFILE, "w") as f:
                json.dump(newmap, f, indent=1, sort_keys=True)
        except OSError:
            pass
    return msgs if detailed else [m for _, m in msgs]


def save_fallback(repo):
    """run on the pinned, unchanged tree: store the output of every soft translator as its fallback"""
    os.makedirs(FALLBACK, exist_ok=True)
    for fn in extract_core.EXTRACTORS:
        if True:        # every translator has a fallback copy: a generated module that does not compile must not take `pmodel` down
            name, text, _ = fn(repo)
            write_if_changed(os.path.join(FALLBACK, name + ".lean"),
                             "-- FALLBACK copy (documented constants; used only when the translator does not recognise the source)\n" + text)


def use_fallback(outdir, module):
    """replace Gen/<module>.lean by its fallback copy; -> (ok, soft?)"""
    fb = os.path.join(FALLBACK, module + ".lean")
    if not os.path.exists(fb):
        return False, False
    write_if_changed(os.path.join(outdir, module + ".lean"), open(fb).read())
    soft = any(getattr(fn, "soft", False) and _modmap().get(fn.__name__) == module for fn in extract_core.EXTRACTORS)
    return True, soft


def _modmap():
    import json
    try:
        return json.load(open(MAPFILE))
    except Exception:
        return {}


if __name__ == "__main__":
    here = os.path.dirname(os.path.dirname(os.path.abspath(__file__)))
    if "--save-fallback" in sys.argv:
        save_fallback(os.environ.get("VERIF_REPO", "/repo"))
    for m in regenerate(os.environ.get("VERIF_REPO", "/repo"), os.path.join(here, "lean", "Percival", "Gen")):
        print("extract:", m)
