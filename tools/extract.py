#!/usr/bin/env python3
"""Translator for data: constants/tables of /repo's *current* source -> lean/Percival/Gen/*.lean.
Run at the start of every check.  A missing item is reported (broken tie), never skipped."""
import os, re, subprocess

def write_if_changed(path, text):
    old = open(path).read() if os.path.exists(path) else None
    if old != text:
        with open(path, "w") as f:
            f.write(text)

EXTRACTORS = []   # functions (repo) -> (module_name, lean_text, [messages])

def extractor(fn):
    EXTRACTORS.append(fn)
    return fn

def read(repo, rel):
    with open(os.path.join(repo, rel), errors="replace") as f:
        return f.read()

def strip_c_comments(s):
    return re.sub(r"/\*.*?\*/", " ", s, flags=re.S)

def regenerate(repo, outdir):
    msgs = []
    os.makedirs(outdir, exist_ok=True)
    for fn in EXTRACTORS:
        try:
            name, text, m = fn(repo)
            msgs += m
            write_if_changed(os.path.join(outdir, name + ".lean"), text)
        except Exception as e:   # source no longer has the shape the extractor knows
            msgs.append("%s: %r" % (fn.__name__, e))
    return msgs

import importlib, sys
sys.path.insert(0, os.path.dirname(os.path.abspath(__file__)))
for _m in ("extract_defs",):
    try:
        importlib.import_module(_m)
    except ModuleNotFoundError:
        pass

if __name__ == "__main__":
    here = os.path.dirname(os.path.dirname(os.path.abspath(__file__)))
    for m in regenerate(os.environ.get("VERIF_REPO", "/repo"), os.path.join(here, "lean", "Percival", "Gen")):
        print("extract:", m)
