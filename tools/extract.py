#!/usr/bin/env python3
"""Translator for data: constants/tables of /repo's *current* source -> lean/Percival/Gen/*.lean.
Run at the start of every check.  A missing item is reported (broken tie), never skipped.
Extractors live in tools/extractors/*.py and register with @extract_core.extractor."""
import importlib, os, sys
sys.path.insert(0, os.path.dirname(os.path.abspath(__file__)))
import extract_core
from extract_core import write_if_changed   # re-exported for gen_main.py

_ed = os.path.join(os.path.dirname(os.path.abspath(__file__)), "extractors")
for _f in sorted(os.listdir(_ed)):
    if _f.endswith(".py") and _f != "__init__.py":
        importlib.import_module("extractors." + _f[:-3])


def regenerate(repo, outdir):
    msgs = []
    os.makedirs(outdir, exist_ok=True)
    for fn in extract_core.EXTRACTORS:
        try:
            name, text, m = fn(repo)
            msgs += m
            write_if_changed(os.path.join(outdir, name + ".lean"), text)
        except Exception as e:   # the source no longer has the shape the extractor knows
            msgs.append("%s: %r" % (fn.__name__, e))
    return msgs


if __name__ == "__main__":
    here = os.path.dirname(os.path.dirname(os.path.abspath(__file__)))
    for m in regenerate(os.environ.get("VERIF_REPO", "/repo"), os.path.join(here, "lean", "Percival", "Gen")):
        print("extract:", m)
