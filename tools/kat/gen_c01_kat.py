"""Writes lean/Percival/KAT/*.lean for C01 from the published vectors typed below (run once; the generated files are
committed).  Python's hashlib/hmac only cross-check the typing of the expected values."""
import hashlib, hmac, os, sys
KATDIR = os.path.join(os.path.dirname(os.path.dirname(os.path.dirname(os.path.abspath(__file__)))), "lean", "Percival", "KAT")
# published vectors (typed from the standards); python only cross-checks my typing
def chk(name, got, exp):
    assert got == exp, (name, got, exp)
sha256 = [("abc","ba7816bf8f01cfea414140de5dae2223b00361a396177a9cb410ff61f20015ad"),
 ("abcdbcdecdefdefgefghfghighijhijkijkljklmklmnlmnomnopnopq","248d6a61d20638b8e5c026930c3e6039a33ce45964ff2167f6ecedd419db06c1"),
 ("","e3b0c44298fc1c149afbf4c8996fb92427ae41e4649b934ca495991b7852b855")]
for m,d in sha256: chk("sha256",hashlib.sha256(m.encode()).hexdigest(),d)
sha1 = [("abc","a9993e364706816aba3e25717850c26c9cd0d89d"),
 ("abcdbcdecdefdefgefghfghighijhijkijkljklmklmnlmnomnopnopq","84983e441c3bd26ebaae4aa1f95129e5e54670f1"),
 ("","da39a3ee5e6b4b0d3255bfef95601890afd80709")]
for m,d in sha1: chk("sha1",hashlib.sha1(m.encode()).hexdigest(),d)
md5 = [("","d41d8cd98f00b204e9800998ecf8427e"),("a","0cc175b9c0f1b6a831c399e269772661"),("abc","900150983cd24fb0d6963f7d28e17f72"),
 ("message digest","f96b697d7cb7938d525a2f31aaf161d0"),("abcdefghijklmnopqrstuvwxyz","c3fcd3d76192e4007dfb496cca67e13b"),
 ("ABCDEFGHIJKLMNOPQRSTUVWXYZabcdefghijklmnopqrstuvwxyz0123456789","d174ab98d277d9f5a5611c2c9f419d9f"),
 ("1234567890"*8,"57edf4a22be3c955ac49da2e2107b67a")]
for m,d in md5: chk("md5",hashlib.md5(m.encode()).hexdigest(),d)
# RFC 4231: (key as lean expr, key bytes, data lean expr, data bytes, digest)
def rep(b,n): return ("List.replicate %d 0x%02x"%(n,b), bytes([b])*n)
def asc(s): return ('ascii "%s"'%s, s.encode())
def hx(h): return ('unhex "%s"'%h, bytes.fromhex(h))
rfc4231 = [
 (rep(0x0b,20), asc("Hi There"), "b0344c61d8db38535ca8afceaf0bf12b881dc200c9833da726e9376c2e32cff7"),
 (asc("Jefe"), asc("what do ya want for nothing?"), "5bdcc146bf60754e6a042426089575c75a003f089d2739839dec58b964ec3843"),
 (rep(0xaa,20), rep(0xdd,50), "773ea91e36800e46854db8ebd09181a72959098b3ef8c122d9635514ced565fe"),
 (hx("0102030405060708090a0b0c0d0e0f10111213141516171819"), rep(0xcd,50), "82558a389a443c0ea4cc819899f2083a85f0faa3e578f8077a2e3ff46729665b"),
 (rep(0xaa,131), asc("Test Using Larger Than Block-Size Key - Hash Key First"), "60e431591ee0b67f0d8a26aacbf5b77f8e0bc6213728c5140546040f0ee37f54"),
 (rep(0xaa,131), asc("This is a test using a larger than block-size key and a larger than block-size data. The key needs to be hashed before being used by the HMAC algorithm."), "9b09ffa71b942fcb27635fbcd5b0e944bfdc63644f0713938a7f51535c3a35e2"),
]
for k,d,x in rfc4231: chk("4231",hmac.new(k[1],d[1],hashlib.sha256).hexdigest(),x)
tc5 = (rep(0x0c,20), asc("Test With Truncation"), "a3b6167473100ee06e0c796c2955552b")
chk("4231-5", hmac.new(tc5[0][1],tc5[1][1],hashlib.sha256).hexdigest()[:32], tc5[2])
def rfc2202(n):
    return [
 (rep(0x0b,n), asc("Hi There")),
 (asc("Jefe"), asc("what do ya want for nothing?")),
 (rep(0xaa,n), rep(0xdd,50)),
 (hx("0102030405060708090a0b0c0d0e0f10111213141516171819"), rep(0xcd,50)),
 (rep(0x0c,n), asc("Test With Truncation")),
 (rep(0xaa,80), asc("Test Using Larger Than Block-Size Key - Hash Key First")),
 (rep(0xaa,80), asc("Test Using Larger Than Block-Size Key and Larger Than One Block-Size Data"))]
md5x = ["9294727a3638bb1c13f48ef8158bfc9d","750c783e6ab0b503eaa86e310a5db738","56be34521d144c88dbb8c733f0e8b3f6",
 "697eaf0aca3a3aea3a75164746ffaa79","56461ef2342edc00f9bab995690efd4c","6b1ab7fe4bd7bf8f0b62e6ce61b9d0cd","6f630fad67cda0ee1fb1f562db3aa53e"]
sha1x = ["b617318655057264e28bc0b6fb378c8ef146be00","effcdf6ae5eb2fa2d27416d5f184df9c259a7c79","125d7342b9ac11cd91a39af48aa17b4f63f175d3",
 "4c9007f4026250c6bc8414f9bf50c86c2d7235da","4c1a03424b55e07fe7f27be1d58bb9324a9a5a04","aa4ae5e15272d00e95705637ce8a3b55ed402112","e8e99d0f45237d786d6bbaa7965c7808bbff1a91"]
for (k,d),x in zip(rfc2202(16),md5x): chk("2202md5",hmac.new(k[1],d[1],hashlib.md5).hexdigest(),x)
for (k,d),x in zip(rfc2202(20),sha1x): chk("2202sha1",hmac.new(k[1],d[1],hashlib.sha1).hexdigest(),x)
pb = [("passwd","salt",1,64,"55ac046e56e3089fec1691c22544b605f94185216dde0465e68b9d57c20dacbc49ca9cccf179b645991664b39d77ef317c71b845b1e30bd509112041d3a19783","RFC 7914 §11, first vector"),
      ("password","salt",1,32,"120fb6cffcf8b32c43e7225256c4f837a86548c92ccc35480805987cb70be17b","widely published PBKDF2-HMAC-SHA256 vector (RFC 6070 inputs), c = 1"),
      ("password","salt",2,32,"ae4d0c95af6b46d32d0adff928f06dd02a303f8ef3c251dfd6e2d85a95474c43","same, c = 2"),
      ("password","salt",2,20,"ae4d0c95af6b46d32d0adff928f06dd02a303f8e","same, dkLen = 20 (not a multiple of 32)")]
for P,S,c,dk,x,_ in pb: chk("pb",hashlib.pbkdf2_hmac("sha256",P.encode(),S.encode(),c,dk).hex(),x)
chk("pb80000",hashlib.pbkdf2_hmac("sha256",b"Password",b"NaCl",80000,64).hex(),"4ddcd8f60b98be21830cee5ef22701f9641a4418d04c0414aeff08876b34ab56a1d425a1225833549adb841b51c9b3176a272bdebba1d078478f62b397f33c8d")

HDR = '''/-! GENERATED ONCE by a script from the published vectors named below; LABELLED TESTS, not part of
any property theorem: each `example` is evaluated by the kernel (`decide +kernel`) and guards
against a tidy-but-wrong `Spec`. -/
'''
COMMON = '''import Percival.Spec.Pbkdf2
/-! helpers for the known-answer tests (labelled tests; see the individual files) -/
namespace Percival.KAT
open Percival.Spec
def ascii (s : String) : Bytes := s.toList.map (fun c => UInt8.ofNat c.toNat)
def unhexC (c : Char) : Nat := if c.toNat ≥ 97 then c.toNat - 87 else c.toNat - 48
def unhexL : List Char → Bytes
  | a :: b :: r => UInt8.ofNat (unhexC a * 16 + unhexC b) :: unhexL r
  | _ => []
def unhex (s : String) : Bytes := unhexL s.toList
end Percival.KAT
'''
open(os.path.join(KATDIR, "Common.lean"),"w").write(COMMON)
def ex(lhs, rhs, doc):
    return '/-- %s -/\nexample : %s = unhex "%s" := by decide +kernel\n\n' % (doc, lhs, rhs)
def wr(name, imports, body):
    open(os.path.join(KATDIR, "%s.lean"%name),"w").write("import Percival.KAT.Common\n"+imports+HDR+"namespace Percival.KAT.%s\nopen Percival.Spec Percival.KAT\nset_option maxRecDepth 100000\n\n"%name+body+"end Percival.KAT.%s\n"%name)
b=""
for m,d in sha256: b+=ex('Sha256.hash (ascii "%s")'%m, d, "FIPS 180-4 / NIST example, %d bytes"%len(m))
wr("Sha256","",b)
b=""
for m,d in sha1: b+=ex('Sha1.hash (ascii "%s")'%m, d, "FIPS 180-4 / NIST example, %d bytes"%len(m))
wr("Sha1","",b)
b=""
for m,d in md5: b+=ex('Md5.hash (ascii "%s")'%m, d, "RFC 1321 A.5 test suite")
wr("Md5","",b)
b=""
for i,(k,d,x) in zip([1,2,3,4,6,7],rfc4231): b+=ex("Hmac.hmacSha256 (%s) (%s)"%(k[0],d[0]), x, "RFC 4231 test case %d (key %d bytes)"%(i,len(k[1])))
b+=ex("(Hmac.hmacSha256 (%s) (%s)).take 16"%(tc5[0][0],tc5[1][0]), tc5[2], "RFC 4231 test case 5 (truncated to 128 bits)")
wr("HmacSha256","",b)
b=""
for i,((k,d),x) in enumerate(zip(rfc2202(16),md5x)): b+=ex("Hmac.hmacMd5 (%s) (%s)"%(k[0],d[0]), x, "RFC 2202 HMAC-MD5 test case %d"%(i+1))
wr("HmacMd5","",b)
b=""
for i,((k,d),x) in enumerate(zip(rfc2202(20),sha1x)): b+=ex("Hmac.hmacSha1 (%s) (%s)"%(k[0],d[0]), x, "RFC 2202 HMAC-SHA-1 test case %d"%(i+1))
wr("HmacSha1","",b)
b=""
for P,S,c,dk,x,doc in pb: b+=ex('Pbkdf2.pbkdf2Sha256 (ascii "%s") (ascii "%s") %d %d'%(P,S,c,dk), x, doc)
b+='/- RFC 7914 §11 second vector (P = "Password", S = "NaCl", c = 80000, dkLen = 64) needs 640 000 compressions:\n   too slow for the kernel; it is run through the compiled Spec in corpus/C01/hash-rfc7914.case. -/\n\n'
wr("Pbkdf2","",b)
# crc
def crc32c_std(data):
    crc=0xffffffff
    for x in data:
        crc^=x
        for _ in range(8): crc=(crc>>1)^(0x82f63b78 if crc&1 else 0)
    return (crc^0xffffffff).to_bytes(4,"little").hex()
v=[(rep(0,32),"aa36918a","32 bytes of zeroes"),(rep(0xff,32),"43aba862","32 bytes of ones"),
   (hx(bytes(range(32)).hex()),"4e79dd46","32 bytes of incrementing 00..1f"),(hx(bytes(range(31,-1,-1)).hex()),"5cdb3f11","32 bytes of decrementing 1f..00"),
   (hx("01c000000000000000000000000000001400000000000400000000140000001828000000000000000200000000000000"),"563a96d9","an iSCSI - SCSI Read (10) Command PDU")]
b=""
for d,x,doc in v:
    chk("crc",crc32c_std(d[1]),x)
    b+=ex("Crc32c.iscsi (%s)"%d[0], x, "RFC 3720 B.4: "+doc)
own=[("","783bf682"),(" ","27747edb"),("A","4664d348"),("AAAA","68f2c025"),("AB","7b44d2c7"),("hello","af7a0bc3"),("hello world","ca130baa"),
     ("This is a CRC32 hash using the Catagnoli polynomial","1bc4b428")]
b+="/-! libcperciva's own published examples (tests/crc32/main.c): the documented sentence holds for them,\n    and the Spec function reproduces them. -/\n\n"
for s,x in own:
    b+='example : Crc32c.Valid (ascii "%s") (unhex "%s") := by decide +kernel\n'%(s,x)
    b+='example : Crc32c.crc32c (ascii "%s") = unhex "%s" := by decide +kernel\n\n'%(s,x)
b+='/-- a wrong value is rejected (the definition is not vacuous) -/\nexample : ¬ Crc32c.Valid (ascii "hello world") (unhex "ca130bab") := by decide +kernel\n\n'
wr("Crc32c","import Percival.Spec.Crc32c\n",b)
print("ok")
