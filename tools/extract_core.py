"""Registry + helpers for the data translators in tools/extractors/*.py."""
import os, re

EXTRACTORS = []   # functions (repo_path) -> (module_name, lean_text, [messages])


def extractor(fn=None, soft=False):
    """Register a translator.  `soft=True`: every item it extracts is exercised at L1 (the Spec's own answer) by the
    correspondence run of the properties that use it, so when the source no longer has the shape the translator
    knows, the Gen module is written from tools/extractors/fallback/<Name>.lean (the documented constants) and the
    tie for those items is the (enlarged) correspondence run alone.  A non-soft translator that fails is a broken tie."""
    def reg(f):
        f.soft = soft
        EXTRACTORS.append(f)
        return f
    return reg(fn) if fn is not None else reg


def write_if_changed(path, text):
    old = open(path).read() if os.path.exists(path) else None
    if old != text:
        with open(path, "w") as f:
            f.write(text)


def read(repo, rel):
    with open(os.path.join(repo, rel), errors="replace") as f:
        return f.read()


def strip_c_comments(s):
    return re.sub(r"/\*.*?\*/", " ", s, flags=re.S)


def c_array(src, name):
    """Text between the braces of `name[...] = { ... };` (comments stripped)."""
    src = strip_c_comments(src)
    m = re.search(r"\b" + re.escape(name) + r"\s*\[[^\]]*\]\s*=\s*\{(.*?)\}\s*;", src, re.S)
    if not m:
        raise KeyError("array %s not found" % name)
    return m.group(1)


def c_ints(text):
    """All integer literals (hex/dec, suffixes dropped) in a piece of C text."""
    return [int(t.rstrip("uUlL"), 0) for t in re.findall(r"0[xX][0-9a-fA-F]+[uUlL]*|\b\d+[uUlL]*\b", text)]


def c_define(src, name):
    m = re.search(r"^\s*#\s*define\s+" + re.escape(name) + r"\s+(.+?)\s*$", strip_c_comments(src), re.M)
    if not m:
        raise KeyError("#define %s not found" % name)
    return m.group(1)


def lean_list(name, typ, vals, per_line=8, fmt="0x%08x"):
    lines = []
    for i in range(0, len(vals), per_line):
        lines.append("  " + ", ".join(fmt % v for v in vals[i:i + per_line]))
    return "def %s : List %s := [\n%s]\n" % (name, typ, ",\n".join(lines))
