#!/usr/bin/env python3
"""Run the checks against every kept behaviour-preserving change (benign/*/patch.diff: cosmetic / refactor / internal-only,
written by sub-agents that saw only the property text).  Wanted: OK.  A `VIOLATION … no-failing-input-found` is the
prescribed answer when the model/implementation tie itself is broken by the rewrite; a VIOLATION with a replay would be a
false alarm.  Writes benign/<name>/result.json.   Usage: regress_benign.py [N] [filter]"""
import subprocess, sys, os, json, glob, tempfile, shutil, concurrent.futures as cf
N = int(sys.argv[1]) if len(sys.argv) > 1 and sys.argv[1].isdigit() else 3
flt = sys.argv[2] if len(sys.argv) > 2 else ""
# checks that share files with the property's relevant files
RELATED = {"C01": ["C01", "C03", "C19"], "C02": ["C02", "C03"], "C03": ["C03", "C01", "C02"], "C04": ["C04", "C05", "C06", "C14"],
           "C05": ["C05", "C04", "C13"], "C06": ["C06", "C04", "C07"], "C07": ["C07", "C09", "C14"], "C08": ["C08", "C09"],
           "C09": ["C09", "C08", "C07"], "C10": ["C10", "C11", "C20"], "C11": ["C11", "C10"], "C12": ["C12", "C14", "C13"],
           "C13": ["C13", "C04", "C05", "C14", "C12"], "C14": ["C14", "C12", "C13"], "C15": ["C15", "C17", "C18"],
           "C16": ["C16", "C15"], "C17": ["C17", "C15"], "C18": ["C18", "C15"], "C19": ["C19", "C01", "C03", "C20"],
           "C20": ["C20", "C01", "C02", "C10", "C15"]}
def one(d):
    meta = json.load(open(os.path.join(d, "meta.json")))
    pid = meta["property"]
    scratch = tempfile.mkdtemp(prefix="benign-")
    wt = os.path.join(scratch, "repo")
    res = {}
    try:
        subprocess.check_call(["git", "-C", "/repo", "worktree", "add", "-q", "--detach", wt, "HEAD"])
        subprocess.check_call(["git", "-C", wt, "apply", os.path.join(d, "patch.diff")])
        for c in RELATED[pid]:
            r = subprocess.run(["./check", c], cwd="/verif", stdout=subprocess.PIPE, stderr=subprocess.STDOUT, text=True,
                               env=dict(os.environ, VERIF_REPO=wt))
            lines = [l for l in r.stdout.strip().split("\n") if l.startswith(("VIOLATION", "OK", "KNOWN"))]
            if r.returncode == 0:
                res[c] = "OK" + (" (fallback)" if "translator-fallbacks" in " ".join(lines) else "")
            elif lines and all("no-failing-input-found" in l for l in lines if l.startswith("VIOLATION")):
                why = ""
                for l in lines:
                    rp = os.path.join("/verif", l.split("replay=")[1].split()[0]) if "replay=" in l else None
                    if rp and os.path.exists(rp):
                        b = json.load(open(rp))
                        why = json.dumps(b.get("broken") or b.get("first_divergence"))[:300]
                        break
                res[c] = "no-failing-input-found: " + why
            else:
                res[c] = "FALSE-ALARM: " + " / ".join(lines)[:300]
    except Exception as e:
        res["error"] = repr(e)[:200]
    finally:
        subprocess.call(["git", "-C", "/repo", "worktree", "remove", "--force", wt])
        shutil.rmtree(scratch, ignore_errors=True)
    json.dump(res, open(os.path.join(d, "result.json"), "w"), indent=1)
    return os.path.basename(d), res
dirs = [d for d in sorted(glob.glob("/verif/benign/*")) if flt in d and os.path.exists(os.path.join(d, "patch.diff"))]
with cf.ThreadPoolExecutor(N) as ex:
    for name, res in ex.map(one, dirs):
        print("%-28s %s" % (name, "; ".join("%s=%s" % (k, v[:60]) for k, v in res.items())), flush=True)
subprocess.call(["python3", "/verif/tools/extract.py"])
