#!/usr/bin/env python3
"""Regenerate the per-property status table of DESIGN.md section 12.2 (between the markers) from what is in the tree:
theorem names from lean/Percival/Properties/Cxx.lean, components from tools/props/cxx.py, notes/Cxx.md."""
import importlib, json, os, re, sys
HERE = os.path.dirname(os.path.dirname(os.path.abspath(__file__)))
sys.path.insert(0, os.path.join(HERE, "tools"))
import vlib

BEGIN, END = "<!-- STATUS-TABLE-BEGIN -->", "<!-- STATUS-TABLE-END -->"

def main():
    props = [json.loads(l) for l in open(os.path.join(HERE, "properties.jsonl"))]
    rows = ["| prop | theorems in `Properties/` (all audited each run) | correspondence components (harness → `pmodel`) | notes |", "|---|---|---|---|"]
    for p in props:
        pid = p["id"]
        mp = os.path.join(HERE, "tools", "props", pid.lower() + ".py")
        if not os.path.exists(mp):
            rows.append("| %s | — | not built | |" % pid)
            continue
        mod = importlib.import_module("props." + pid.lower())
        names = []
        for m in getattr(mod, "MODULES", []):
            names += [n.split(".")[-1] for n in vlib.theorem_names(m)]
        try:
            ctx = vlib.Ctx(pid, "quick", 1, keep_replays=True)
            comps = mod.components(ctx)
            ctx.cleanup()
            cs = "; ".join("`%s` (%s%s)" % (c.name, c.harness, ", monitor `%s`" % c.monitor_args[0] if c.monitor_args else "") for c in comps)
        except Exception as e:
            cs = "custom flow (see tools/props/%s.py)" % pid.lower()
        shown = ", ".join("`%s`" % n for n in names[:14]) + (" … (%d in all)" % len(names) if len(names) > 14 else "")
        rows.append("| %s | %d: %s | %s | `notes/%s.md` |" % (pid, len(names), shown, cs, pid))
    table = "\n".join(rows)
    path = os.path.join(HERE, "DESIGN.md")
    s = open(path).read()
    # seeded changes written by independent sub-agents (seeded/<name>/meta.json)
    srows = ["| seeded change | what it needs to manifest | what the checks report |", "|---|---|---|"]
    sd = os.path.join(HERE, "seeded")
    for name in sorted(os.listdir(sd)) if os.path.isdir(sd) else []:
        mp = os.path.join(sd, name, "meta.json")
        if not os.path.exists(mp):
            continue
        m = json.load(open(mp))
        def cell(x):
            return " ".join(str(x).replace("|", "/").split())[:330]
        srows.append("| `%s` — %s | %s | %s |" % (name, cell(m.get("title", "")), cell(m.get("needs", "")), cell(m.get("checks_result", ""))))
    B2, E2 = "<!-- SEEDED-TABLE-BEGIN -->", "<!-- SEEDED-TABLE-END -->"
    if B2 in s:
        s = re.sub(re.escape(B2) + r".*?" + re.escape(E2), lambda _: B2 + "\n" + "\n".join(srows) + "\n" + E2, s, flags=re.S)
    # behaviour-preserving changes (benign/<name>/{meta,result}.json)
    brows = ["| change (kind) | what was changed | checks run → outcome |", "|---|---|---|"]
    bd = os.path.join(HERE, "benign")
    for name in sorted(os.listdir(bd)) if os.path.isdir(bd) else []:
        mp = os.path.join(bd, name, "meta.json")
        if not os.path.exists(mp):
            continue
        m = json.load(open(mp))
        rp = os.path.join(bd, name, "result.json")
        res = json.load(open(rp)) if os.path.exists(rp) else {}
        def cell(x, n=260):
            return " ".join(str(x).replace("|", "/").split())[:n]
        out = "; ".join("%s: %s" % (k, cell(v, 150)) for k, v in res.items()) or "not run yet"
        brows.append("| `%s` | %s | %s |" % (name, cell(m.get("title", "")), out))
    B3, E3 = "<!-- BENIGN-TABLE-BEGIN -->", "<!-- BENIGN-TABLE-END -->"
    if B3 in s:
        s = re.sub(re.escape(B3) + r".*?" + re.escape(E3), lambda _: B3 + "\n" + "\n".join(brows) + "\n" + E3, s, flags=re.S)
    if BEGIN in s:
        s = re.sub(re.escape(BEGIN) + r".*?" + re.escape(END), lambda _: BEGIN + "\n" + table + "\n" + END, s, flags=re.S)
    else:
        print("markers not found", file=sys.stderr)
        return 1
    open(path, "w").write(s)
    return 0

if __name__ == "__main__":
    sys.exit(main())
