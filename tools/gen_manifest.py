#!/usr/bin/env python3
"""Write MANIFEST.json from the table below (single source for what is claimed)."""
import json, os
HERE = os.path.dirname(os.path.dirname(os.path.abspath(__file__)))

PROOF_NOTE = ("Trusted: Lean 4.33.0 kernel (axioms propext, Classical.choice, Quot.sound only; no native_decide/bv_decide, "
              "audited on every run with #print axioms), the compiled model `pmodel`, tools/extract.py for constants, "
              "the C harness + orchestrator that tie the model to /repo's working tree, gcc ASan/UBSan as detector in the real code. "
              "What pmodel runs per protocol line is a typed step function from Model/ or Spec/ (drivers only parse and print); exec_* / "
              "run_ops_* / monitor_accepts_model theorems relate it to the property theorems. A run that had to fall back (translator "
              "did not recognise the source: documented constants + tenfold correspondence; white-box harness did not compile: black-box "
              "mode, L1 only) says so in its evidence (coverage.translator_fallbacks). ")

CLAIMS = {
 "C13": dict(
   text="Machine-checked Lean 4 theorems about an executable model that follows ptrheap.c/timerqueue.c statement by statement "
        "(heap order and handle consistency preserved by every operation, for all op sequences and sizes), tied to the current "
        "source on every run by lock-step comparison (array contents and the exact setreccookie sequence) and by an executable "
        "specification monitor (ideal multiset) judging the real code's answers.",
   note=PROOF_NOTE + "Assumes the caller's comparator is a total preorder given by a key and that handle operations respect the documented contract.",
   technique="Lean 4 proof (invariant + refinement to an ideal priority queue) + model/implementation correspondence",
   design_ref="5/C13"),
}

 # C10
CLAIMS["C10"] = dict(
   text="Lean 4 theorems about a model of crypto_dh.c over Nat: the model's BN_mod_exp (square-and-multiply) equals a^e mod m; "
        "blinded_modexp returns a^(2^258+x) mod p as exactly 256 big-endian bytes for every private value, every peer value and "
        "EVERY blinding value (hence blinding-independence and agreement); the sanity check accepts exactly the values below p. "
        "The modulus bytes, two_exp_256, the number of BN_adds, lengths and the memcmp comparison are re-extracted from the source "
        "on every run and proved equal to RFC 3526 / the documented constants; the model is run against the real code (OpenSSL BN) "
        "on boundary peers 0,1,p-1,p,p+1,2^2048-1, leading-zero results and injected entropy failure.",
   note=PROOF_NOTE + "OpenSSL's BN_* functions are modelled as the arithmetic they name (not verified); crypto_entropy_read is scripted. "
        "The pi-formula for the RFC 3526 prime is not proved; the prime is compared literally with the RFC's hex and with OpenSSL's own copy.",
   technique="Lean 4 proof (number-theoretic identities + encoding lemmas) + extracted constants + model/implementation correspondence",
   design_ref="5/C10")

 # C06
CLAIMS["C06"] = dict(
   text="Lean 4 theorems about executable models of callback_buf (network_read.c / network_write.c), callback_accept and the "
        "tryconnect/callback_connect/callback_timeo/dofailed machinery of network_connect.c: for EVERY kernel script (any fragmentation, "
        "any number of EAGAIN/EWOULDBLOCK/EINTR, EOF or hard error anywhere) a read ends in one completion with minread<=n<=buflen whose "
        "buffer is exactly the next n stream bytes with the remainder still queued; a write hands exactly buf[0..n) to the socket; accept "
        "retries on exactly the soft errors; a connect over ANY list of per-address outcomes yields exactly one callback with the first "
        "socket that connected (or -1, or none when an address hangs without timeout), tries addresses in order and closes every failed "
        "socket. The models are run in lock-step (every recv/send with its length argument and result, every socket/close) against the "
        "real code over the real event loop with a scripted kernel (--wrap), incl. all outcome strings up to length 4/6 exhaustively.",
   note=PROOF_NOTE + "The kernel (poll/recv/send/accept/connect/getsockopt) is scripted; the event loop's one-shot registration contract is C04's; "
        "allocation failure inside these requests is C14's. 'Exactly one callback' is structural in the functional model; on the real code it is "
        "observed by the harness (callback counters) on every generated case.",
   technique="Lean 4 proof (invariants over arbitrary kernel scripts; refinement of the stepwise connect model to a one-pass reference) + lock-step correspondence",
   design_ref="5/C06")

 # C20
CLAIMS["C20"] = dict(
   text="The clean-up code of every secret-handling function (hash/HMAC *_Final, AES key free in both layouts, AES-CTR free, the "
        "BIGNUM ladder of blinded_modexp, the aws_readkeys error ladder) is TRANSLATED from the current source into a small statement "
        "language on every run, one program per preprocessor configuration (HWACCEL on/off, AES-NI, ARM) with the run-time dispatch "
        "branches kept and static helpers inlined; Lean gives it a semantics (abstract interpreter enumerating all exit paths of "
        "blinded_modexp - 21 today - with live/tainted tracking; dominance of every free() by a whole-block zeroing whose size "
        "expression, resolved through declared types, equals the allocation's; last-touch analysis of context objects; no call in "
        "aws_readkeys that may move a line buffer inside libc) and the kernel decides the wipe property on the regenerated program for "
        "every configuration, independent of any key, message, private or blinding value (17 obligations). General theorems state what "
        "a 'true' verdict means for any program. The real code is then observed: in an -O2 build (context bytes after Final, block "
        "contents at free(), BIGNUM limbs at release with failure of the k-th OpenSSL allocation injected to walk every rung of the "
        "error ladder), in a sanitizer build whose free hook sees every block released by anyone, libc included, and in the AES-NI "
        "build with the software path forced; insecure_memzero itself is checked exactly for every alignment and length.",
   note=PROOF_NOTE + "Trusted in addition: tools/extractors/c20.py (C statement-shape translator with a small preprocessor, ~600 lines); OpenSSL's BN_clear_free "
        "cleanses (observed, not modelled); compiler elision of insecure_memzero is observed in one -O2 build only; stack/register copies and the key file's "
        "stdio buffer (released inside fclose) are outside the statement.",
   technique="Lean 4 decision over a model regenerated from source by a translator (abstract interpretation of clean-up code, per configuration) + runtime observation with fault injection",
   design_ref="5/C20, 12.2")

CLAIMS["C01"] = dict(
   text="Machine-checked Lean 4 theorems (36 obligations) about executable models that follow sha256.c / sha1.c / md5.c / crc32c.c / the HMAC and "
        "PBKDF2 code statement by statement: for EVERY message and EVERY partition into Update calls (any sizes, including the 64-bit "
        "bit-count carry) the streaming interface equals the one-shot FIPS 180-4 / RFC 1321 / RFC 3720 specification; the unrolled "
        "round functions equal the published compression functions; HMAC (keys shorter, equal and longer than the block) equals RFC 2104 "
        "and PBKDF2 equals RFC 8018 for every password/salt/count/dkLen. Round constants, initial values, tables, shift amounts and the "
        "bit-count update are re-extracted from the source on every run and proved equal to the standards' by kernel evaluation; the "
        "model is run in lock-step with the real code (digest = Spec at L1; state words, count and buffer at L2) on generated update "
        "partitions around every block/padding boundary, long PBKDF2 outputs, the published vectors, and one message of 2^25 + k bytes per run hashed by the real code and by the streamed model (`bigd`, `exec_bigd_eq_spec`: bits 28.. of the bit count).",
   note=PROOF_NOTE + "Assumptions: messages < 2^64 bits; PBKDF2 c >= 1 and dkLen <= 32*(2^32-1) (asserted by the C); portable code paths "
        "(the accelerated paths are C03's). memcpy is modelled on lists; uninitialised scratch starts as zeros in the model; wiping is C20's subject. "
        "A wrong bit-count only shows for a single update of >= 512 MiB: tied by the extractor's comparison and a white-box counter op, not by a run of that size.",
   technique=None, design_ref="5/C01, 12.2")

CLAIMS["C04"] = dict(
   text="Machine-checked Lean 4 theorems about an executable model that follows events.c / events_network.c / events_immediate.c / "
        "events_timer.c statement by statement (socket table, pollfd array with move-last compaction, fdscanpos, 32 immediate queues, "
        "timer queue = the proved C13 heap model): the six documented invariants are inductive and exclude every out-of-bounds access, "
        "and for EVERY program of register/cancel/reset calls issued from outside and from inside callbacks, crossed with EVERY "
        "environment (readiness, ERR/HUP, clock advance, EINTR), the trace of the model is accepted by the executable C04 specification "
        "monitor (callback at most once per registration, never after cancel, socket only after a reported readiness or current ERR/HUP, "
        "timer never early) - closed over the proved timer-queue contract (run_admissible_C04_closed). Tie: the same monitor judges the "
        "real event loop's trace on every run (scripted poll and clock via --wrap) and the whole state is compared with the model after every op.",
   note=PROOF_NOTE + "Partial: events_interrupt from a signal handler is modelled only at program points and at a blocked poll; events_spin "
        "(a loop around the same function) is not driven; allocation failure is C14's; POLLNVAL is asserted away by the C.",
   technique=None, design_ref="5/C04, 12.2")

CLAIMS["C05"] = dict(
   text="Machine-checked Lean 4 theorems about the same executable model of the event loop as C04: the 32 immediate queues with minq "
        "refine one stable priority queue (lowest priority number first, FIFO within a priority, re-registration from a callback goes "
        "to the tail); the poll timeout never exceeds the ceiling in ms of the time to the nearest timer deadline, equals it below the "
        "saturation point of poll's int argument and is 0 exactly when the deadline has passed, also when recomputed from the remaining "
        "time after EINTR (the F11 and F12 repairs); and for EVERY program and environment the model's trace is accepted by the executable C05 monitor "
        "(a pending immediate before any ready socket before any expired timer, and no timer before the registered descriptors have been looked at since the previous callback; timers in deadline order; a call that starts with "
        "something runnable runs a callback, otherwise blocks no longer than the earliest deadline and runs what woke it; the first "
        "non-zero status or an interrupt request stops dispatching and events not yet run stay registered), closed over the proved timer-queue contract. Tie: the monitor judges the real event loop's trace "
        "on every run and the whole state is compared with the model after every op, including EINTR sequences with time passing.",
   note=PROOF_NOTE + "Partial: a signal arriving at an arbitrary instruction is modelled only at program points and at a blocked poll; "
        "events_spin is not driven; allocation failure is C14's.",
   technique=None, design_ref="5/C05, 12.2")

PENDING = "check not built yet in this round (see DESIGN.md section 5 for the plan); nothing is claimed for it"

TECHNIQUE = {
 "C01": "Lean 4 proof (generic Merkle-Damgard streaming invariant, HMAC/PBKDF2 refinement, round-function identities, CRC algebra) + extracted constants + lock-step correspondence",
 "C02": "Lean 4 proof (CTR stream-state invariant for every block function and routing; AES-NI instruction model = FIPS-197) + extracted constants + lock-step correspondence",
 "C03": "Lean 4 proof (index arithmetic of the SSE4.2 split, lane-level SSE2 schedule, CRC32 instruction algebra) + every feature-subset build compared with the Spec",
 "C04": "Lean 4 proof (inductive invariants of the socket/pollfd tables; every model trace admissible) + executable specification monitor over the real event loop's traces",
 "C05": "Lean 4 proof (32 queues + minq = stable priority queue; run admissible) + executable specification monitor over the real event loop's traces",
 "C07": "Lean 4 proof (window/queue invariants refining an ideal byte stream) + lock-step correspondence over a scripted transport",
 "C08": "Lean 4 proof (step invariant: no out-of-bounds access, one outcome per step, bounded body) + lock-step correspondence under ASan on hostile streams",
 "C09": "Lean 4 proof (decode (serialize r) = r; request serialiser exact) + lock-step correspondence on generated well-formed responses and segmentations",
 "C11": "Lean 4 proof (refinement to SP 800-90A HMAC_DRBG with the reseed schedule as an invariant) + extracted constants + lock-step correspondence with scripted OS entropy",
 "C12": "Lean 4 proof (refinement of array/queue/map/pool models with mod-2^64 size arithmetic to ideal containers) + lock-step correspondence",
 "C14": "Lean 4 proof (failed operation = identity on abstract and concrete state, for every allocation oracle) + fault enumeration of every k-th allocation against the model",
 "C15": "Lean 4 proof (bounds-checked models never return oob; results in range) + exact-size-buffer runs of the real parsers under ASan",
 "C16": "Lean 4 proof (strto* model = numeral language value/saturation; PARSENUM case analysis per target type) + lock-step correspondence",
 "C17": "Lean 4 proof (round-trip and exact-acceptance theorems; JSON skip/find refinement over an inductive document type) + lock-step correspondence",
 "C18": "Lean 4 proof (model of getopt.c = recursive-descent grammar; reset = fresh parse) + exhaustive and random correspondence",
 "C19": "Lean 4 proof (the four asprintf layouts are instances of published SigV4 on structured requests) + lock-step correspondence with a scripted clock",
}

def from_notes(pid):
    """level text / note taken from notes/Cxx.md written by whoever built the check"""
    import re
    path = os.path.join(HERE, "notes", pid + ".md")
    if not os.path.exists(path):
        return None
    txt = open(path).read()
    secs = re.split(r"^#+\s+", txt, flags=re.M)
    level, trusted = None, None
    for sec in secs:
        head, _, body = sec.partition("\n")
        if "MANIFEST" in head.upper() and level is None:
            level = " ".join(body.strip().strip('"`').split())
            level = re.sub(r"^category\s+[`\"]*proof[`\"]*[.;]?\s*(text:)?\s*", "", level)
            level = re.sub(r"^[`\"]*proof[`\"]*\s*[—-]+\s*", "", level)
            level = re.sub(r"^[`\"]*proof[`\"]*\s+for\b", "Proof for", level)
            level = level.strip('"`').replace("**", "")
        if re.search(r"trusted|not verified|not covered|modelled rather", head, re.I) and trusted is None:
            trusted = " ".join(body.strip().split())
    if not level:
        return None
    return dict(text=level[:1800], note=PROOF_NOTE + (trusted or "")[:1500],
                technique=TECHNIQUE.get(pid, "Lean 4 proof + model/implementation correspondence"), design_ref="5/%s, 12.2" % pid)

def main():
    props = [json.loads(l) for l in open(os.path.join(HERE, "properties.jsonl"))]
    checks, na = [], []
    for p in props:
        pid = p["id"]
        if pid not in CLAIMS and os.path.exists(os.path.join(HERE, "tools", "props", pid.lower() + ".py")):
            n = from_notes(pid)
            if n:
                CLAIMS[pid] = n
        if pid in CLAIMS and os.path.exists(os.path.join(HERE, "tools", "props", pid.lower() + ".py")):
            c = CLAIMS[pid]
            checks.append({
                "property_id": pid,
                "quick_cmd": "./check %s --tier quick" % pid,
                "thorough_cmd": "./check %s --tier thorough" % pid,
                "evidence_file": "evidence/%s.json" % pid,
                "replay_cmd_template": "./check %s --replay {path}" % pid,
                "engine": "percival-lean",
                "level_claimed": {"category": c.get("category", "proof"), "text": c["text"], "design_ref": c["design_ref"]},
                "level_note": c["note"],
                "technique": c["technique"] or TECHNIQUE[pid],
            })
        else:
            na.append({"property_id": pid, "reason": CLAIMS.get(pid, {}).get("na", PENDING)})
    m = {
        "version": 1,
        "setup_cmd": "python3 tools/gen_main.py && python3 tools/extract.py && cd lean && lake build",
        "hooks": {"guard": "LIBCPERCIVA_VERIF",
                  "enable": "harnesses are compiled with -DLIBCPERCIVA_VERIF; the guard currently guards nothing in /repo (observation needs no source change)",
                  "baseline_off_cmd": "cd /repo && make all && make test",
                  "source_commits": [], "add_only": True},
        "engines": [{"name": "percival-lean", "path": "lean/", "serves_properties": [c["property_id"] for c in checks],
                     "kind_free_text": "Lean 4 library `Percival` (Spec/Model/Gen/Proofs/Properties) + compiled model `pmodel`; "
                                       "tools/vlib.py orchestrates proof audit and model/implementation correspondence"}],
        "checks": checks,
        "not_applicable": na,
        "notes": "Genuine defects of the pinned tree found while stating the theorems were repaired in /repo by 'fix:' commits; see known_findings.json and DESIGN.md section 6.",
    }
    with open(os.path.join(HERE, "MANIFEST.json"), "w") as f:
        json.dump(m, f, indent=1)

if __name__ == "__main__":
    main()
