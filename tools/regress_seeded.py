#!/usr/bin/env python3
"""Re-run every kept seeded change (seeded/*/patch.diff) against the check of its property, N at a time, each in its
own scratch worktree of /repo (VERIF_REPO).  Expected: every one is reported (exit 1).  Usage: regress_seeded.py [N] [filter]"""
import subprocess, sys, os, json, glob, tempfile, shutil, concurrent.futures as cf
VERIF = os.path.dirname(os.path.dirname(os.path.abspath(__file__)))     # the tree this tool lives in (/verif, or a builder's worktree)
N = int(sys.argv[1]) if len(sys.argv) > 1 else 4
flt = sys.argv[2] if len(sys.argv) > 2 else ""
def one(d):
    meta = json.load(open(os.path.join(d, "meta.json")))
    import re
    pid = meta.get("property") or os.path.basename(d)[:3]
    m = re.search(r"\./check (C\d\d)", meta.get("checks_result", ""))
    if m:
        pid = m.group(1)       # the check recorded as catching it (a change in a shared file may belong to a neighbour)
    scratch = tempfile.mkdtemp(prefix="regress-")
    wt = os.path.join(scratch, "repo")
    try:
        subprocess.check_call(["git", "-C", "/repo", "worktree", "add", "-q", "--detach", wt, "HEAD"])
        subprocess.check_call(["git", "-C", wt, "apply", os.path.join(d, "patch.diff")])
        # a change that needs one call of >= 2^32 bytes is only within reach of the thorough tier: recorded in checks_result
        tier = ["--tier", "thorough"] if "--tier thorough" in meta.get("checks_result", "") else []
        r = subprocess.run(["./check", pid] + tier, cwd=VERIF, stdout=subprocess.PIPE, stderr=subprocess.STDOUT, text=True,
                           env=dict(os.environ, VERIF_REPO=wt))
        last = [l for l in r.stdout.strip().split("\n") if l.startswith(("VIOLATION", "OK", "KNOWN"))]
        return os.path.basename(d), pid, r.returncode, " / ".join(last)[:200]
    except Exception as e:
        return os.path.basename(d), pid, -1, repr(e)[:200]
    finally:
        subprocess.call(["git", "-C", "/repo", "worktree", "remove", "--force", wt])
        shutil.rmtree(scratch, ignore_errors=True)
dirs = [d for d in sorted(glob.glob(os.path.join(VERIF, "seeded", "*"))) if flt in d and os.path.exists(os.path.join(d, "patch.diff"))]
bad = 0
with cf.ThreadPoolExecutor(N) as ex:
    for name, pid, rc, txt in ex.map(one, dirs):
        flag = "ok  " if rc == 1 else "MISS"
        if rc != 1:
            bad += 1
        print("%s %-55s %s rc=%d %s" % (flag, name, pid, rc, txt), flush=True)
subprocess.call(["python3", os.path.join(VERIF, "tools", "extract.py")])
print("missed: %d of %d" % (bad, len(dirs)))
