#!/bin/sh
# merge a builder branch/commit into main; the two generated Lean files are always regenerated
set -e
cd /verif
git merge --no-commit --no-ff "$1" >/dev/null 2>&1 || true
git checkout --ours lean/Percival.lean lean/Main.lean 2>/dev/null || true
python3 tools/gen_main.py
git add lean/Percival.lean lean/Main.lean
# evidence files are rewritten by the checks: keep ours, the check is re-run after the merge
for f in $(git diff --name-only --diff-filter=U | grep '^evidence/' || true); do
  git checkout --ours "$f" 2>/dev/null || git rm -q --cached "$f"; git add "$f" 2>/dev/null || true
done
if git diff --name-only --diff-filter=U | grep -q .; then
  echo "UNRESOLVED:"; git diff --name-only --diff-filter=U; exit 1
fi
git commit -qm "merge $1" || true
git log --oneline | head -1
