#!/bin/sh
# merge a builder branch/commit into main; the two generated Lean files are always regenerated
set -e
cd /verif
git merge --no-commit --no-ff "$1" >/dev/null 2>&1 || true
git checkout --ours lean/Percival.lean lean/Main.lean 2>/dev/null || true
python3 tools/gen_main.py
git add lean/Percival.lean lean/Main.lean
if git diff --name-only --diff-filter=U | grep -q .; then
  echo "UNRESOLVED:"; git diff --name-only --diff-filter=U; exit 1
fi
git commit -qm "merge $1" || true
git log --oneline | head -1
